// Quantum histories: a structured plan of quantum operations over declarations, a renderer to Bloch
// source (choosing an access path per use), and a reference interpreter of the plan that runs in
// lockstep with the real evaluator (one step behind, at statement boundaries of main).
#pragma once

#include <map>
#include <string>
#include <vector>

#include "sim/core/core.hpp"
#include "sim/models/statevec.hpp"

namespace qh {

using refq::cplx;
using refq::SV;
using sim::Json;

enum Kind { DECL = 0, DECLARR, NEWOBJ1, NEWOBJ2, GATE, CX, MEAS_STMT, MEAS_EXPR, MEAS_ARR, RESET, DROP, IFGATE, CYCLE, ALIAS, FACTORY, PORT, REBIND, KIND_COUNT };
inline bool isDecl(int k) { return k <= NEWOBJ2 || k == ALIAS || k == FACTORY || k == PORT; }
inline const char* kindName(int k) {
    static const char* n[] = {"decl", "declarr", "newobj1", "newobj2", "gate", "cx", "measure_stmt", "measure_expr", "measure_array", "reset", "drop", "if_gate", "garbage_cycle_owning_qubits", "alias", "qubit_returned_by_function", "port_object_bound_to_local_qubit", "port_field_rebound"};
    return k >= 0 && k < KIND_COUNT ? n[k] : "?";
}
inline const char* gateName(int g) {
    static const char* n[] = {"h", "x", "y", "z", "rx", "ry", "rz"};
    return g >= 0 && g < 7 ? n[g] : "?";
}

// handle kinds: 0 variable q<decl>; 1 array element r<decl>[elem]; 2 object field o<decl>.q; 3 object array field p<decl>.qs[elem];
// 4 alias variable a<decl> (a copy of another handle, may outlive the object it was copied from); 5 static field SQ.s;
// 6 field t<decl>.q of a Port object, which is re-pointed at local qubits by assignment (never owns what it names)
struct Handle {
    int k = 0, decl = 0, elem = 0;
    bool viaBit = false;   // array element addressed by a bit-typed subscript (a call returning 0b / 1b)
};

struct Op {
    int kind = 0;
    Handle h, h2;
    int gate = 0;
    int angle = 0;       // index into angle table, sign in angleNeg
    bool angleNeg = false;
    int path = 0;        // access path variant
    int cond = -1;       // IFGATE: bit variable index
    bool tracked = false;
    int size = 2;        // DECLARR
    bool viaDestroy = false;
    int drawKind = 0;    // 0 uniform, 1 r=0, 2 r=max, 3 just below threshold, 4 just above threshold
    uint64_t r64 = 0, r64b = 0;
    int bitvar = -1;     // MEAS_EXPR: index of the bit variable it defines
    int argEffect = 0;   // rotation GATE whose angle argument is a call that 1: resets the target (legal: arguments are evaluated before the
                         // operand is checked), 2: measures the target (the gate must then be refused, with a location)
    int loop = 0;        // GATE: 0 = a plain statement; n >= 2 = the gate sits in a for loop that runs n times
};

inline const std::vector<const char*>& angleTable() {
    static const std::vector<const char*> t = {"0.0", "1.5707964", "3.1415927", "6.2831855", "0.000000001", "1000.0", "0.3", "1.1", "2.7", "4.4", "5.9", "0.7853982", "2.0943951", "12.566371", "0.0001", "0.0003", "0.00005", "0.0006", "0.00001", "0.000003",
                                              // computed at run time by helper functions: a float product that overflows, and inf - inf
                                              "infAngle()", "nanAngle()",
                                              // fifteen integer digits: the printed line is longer than any fixed small buffer
                                              "442139871805440.0"};
    return t;
}
inline bool angleComputed(const Op& o) { size_t k = (size_t)o.angle % angleTable().size(); return k == 20 || k == 21; }
inline double angleValue(const Op& o) {
    if (angleComputed(o)) return (size_t)o.angle % angleTable().size() == 20 ? (o.angleNeg ? -HUGE_VAL : HUGE_VAL) : std::nan("");
    double v = (double)strtof(angleTable()[(size_t)o.angle % angleTable().size()], nullptr);
    return o.angleNeg ? -v : v;
}
inline std::string angleText(const Op& o) {
    std::string s = std::string(angleTable()[(size_t)o.angle % angleTable().size()]) + (angleComputed(o) ? "" : "f");
    return o.angleNeg ? "-" + s : s;
}

struct Plan {
    std::vector<Op> ops;
    int shots = 0;            // 0 = no @shots annotation (clirun)
    bool staticQubit = false; // a class with a 'static qubit' field (handle kind 5, SQ.s), allocated before main runs
};

// ---- declaration table (shared by generator, renderer and interpreter) ---------------------------
struct DeclInfo {
    bool dtorGate = false;  // object of class Q1X: its destructor applies h to its qubit
    bool dtorTemp = false;  // object of class Q1Y: its destructor first declares a qubit of its own and flips it, then applies h to the field
    bool dtorMeasure = false;  // object of class Q1M: its destructor resets and measures its qubit (the tracked outcome is taken afterwards)
    std::string cls;        // dynamic class of an object declaration (Q1, Q1D, Q1X, Q1M, Q2)
    int kind = 0;   // 0 var, 1 array, 2 obj1, 3 obj2, 4 alias, 5 port
    int size = 1;
    bool alive = true;
    bool tracked = false;
};

inline std::string handleExpr(const Handle& h) {
    switch (h.k) {
        case 0: return "q" + std::to_string(h.decl);
        case 1: return "r" + std::to_string(h.decl) + "[" + (h.viaBit && h.elem <= 1 ? (h.elem ? std::string("bitOne()") : std::string("bitZero()")) : std::to_string(h.elem)) + "]";
        case 2: return "o" + std::to_string(h.decl) + ".q";
        case 4: return "a" + std::to_string(h.decl);
        case 5: return "SQ.s";
        case 6: return "t" + std::to_string(h.decl) + ".q";
        default: return "p" + std::to_string(h.decl) + ".qs[" + std::to_string(h.elem) + "]";
    }
}

// ---- renderer ----------------------------------------------------------------------------------------
struct Rendered {
    std::string source;
    std::vector<int> stmtOp;        // main statement index -> op index
    std::vector<bool> stmtFirst;    // first statement of its op
    int mainFirstLine = 0;
};

inline std::string preamble(bool trackedFields, bool staticQubit = false) {
    std::string t = trackedFields ? "@tracked " : "";
    std::string s;
    s += "class Q1 {\n";
    s += "    " + t + "public qubit q;\n";
    s += "    public constructor() -> Q1 = default;\n";
    for (int g = 0; g < 4; ++g) s += std::string("    public function g") + gateName(g) + "() -> void { " + gateName(g) + "(this.q); }\n";
    for (int g = 4; g < 7; ++g) s += std::string("    public function g") + gateName(g) + "(float t) -> void { " + gateName(g) + "(q, t); }\n";
    s += "    public function m() -> bit { return measure this.q; }\n";
    s += "    public function ms() -> void { measure this.q; }\n";
    s += "    public function r() -> void { reset this.q; }\n";
    s += "    public function cxTo(qubit t) -> void { cx(this.q, t); }\n";
    s += "    public function cxFrom(qubit c) -> void { cx(c, this.q); }\n";
    s += "    public function on(qubit p, int g) -> void { if (g == 0) { h(p); } if (g == 1) { x(p); } if (g == 2) { y(p); } if (g == 3) { z(p); } }\n";
    s += "}\n";
    s += "class Q1D extends Q1 {\n    public int tag;\n    public constructor() -> Q1D { super(); this.tag = 1; return this; }\n}\n";
    s += "class Q1X extends Q1 {\n    public constructor() -> Q1X { super(); return this; }\n    public destructor() -> void { h(this.q); }\n}\n";
    s += "class Q1Y extends Q1 {\n    public constructor() -> Q1Y { super(); return this; }\n    public destructor() -> void { qubit tmp; x(tmp); h(this.q); }\n}\n";
    s += "class Q1M extends Q1 {\n    public constructor() -> Q1M { super(); return this; }\n    public destructor() -> void { reset this.q; measure this.q; }\n}\n";
    s += "class Q2 {\n";
    s += "    " + t + "public qubit[2] qs;\n";
    s += "    public constructor() -> Q2 = default;\n";
    s += "    public function mAll() -> void { measure this.qs; }\n";
    s += "    public function gh(int i) -> void { h(this.qs[i]); }\n";
    s += "}\n";
    for (int g = 0; g < 4; ++g) s += std::string("function f") + gateName(g) + "(qubit p) -> void { " + gateName(g) + "(p); }\n";
    for (int g = 4; g < 7; ++g) s += std::string("function f") + gateName(g) + "(qubit p, float t) -> void { " + gateName(g) + "(p, t); }\n";
    s += "function fcx(qubit a, qubit b) -> void { cx(a, b); }\n";
    s += "function fmeasure(qubit p) -> bit { bit r = measure p; return r; }\n";
    s += "@quantum function qmeasure(qubit p) -> bit { return measure p; }\n";
    s += "function fmeasures(qubit p) -> void { measure p; }\n";
    s += "function freset(qubit p) -> void { reset p; }\n";
    s += "function farrx(qubit[] r, int i) -> void { x(r[i]); }\n";
    s += "function farrm(qubit[] r) -> void { measure r; }\n";
    s += "function bitZero() -> bit { return 0b; }\nfunction bitOne() -> bit { return 1b; }\n";
    s += "function infAngle() -> float { float b = 100000000000000000000.0f; float a = b; for (int i = 0; i < 16; i = i + 1) { a = a * b; } return a; }\n";
    s += "function nanAngle() -> float { float a = infAngle(); return a - a; }\n";
    s += "function angleAfterReset(qubit p) -> float { reset p; return 0.3f; }\n";
    s += "function angleAfterMeasure(qubit p) -> float { bit r = measure p; return 0.3f; }\n";
    s += "function prepH() -> qubit { qubit t; h(t); return t; }\nfunction prepN() -> qubit { qubit t; return t; }\n";
    if (staticQubit) s += "static class SQ { public static qubit s; }\n";
    s += "class Port { public qubit q; public constructor() -> Port { } public function attach(qubit w) -> void { this.q = w; } }\n";
    s += "class QB { public qubit q; public constructor() -> QB = default; }\n";
    s += "class QS extends QB { public QS next; public constructor() -> QS { super(); this.next = null; return this; } }\n";
    s += "function mkCycle() -> void { QS ca = new QS(); QS cb = new QS(); ca.next = cb; cb.next = ca; }\n";
    return s;
}

inline std::string gateCall(const Op& o, const std::vector<DeclInfo>& decls) {
    (void)decls;
    std::string e = handleExpr(o.h);
    bool rot = o.gate >= 4;
    std::string ang = rot ? ", " + angleText(o) : "";
    if (rot && o.argEffect) return std::string(gateName(o.gate)) + "(" + e + ", " + (o.argEffect == 1 ? "angleAfterReset(" : "angleAfterMeasure(") + e + "));";
    int path = o.path;
    if (o.h.k == 2) {  // object field: 0 direct, 1 function, 2 method on this.q, 3 another spelling via method param (on self)
        if (path % 4 == 2) return "o" + std::to_string(o.h.decl) + ".g" + gateName(o.gate) + "(" + (rot ? angleText(o) : "") + ");";
        if (path % 4 == 3 && !rot) return "o" + std::to_string(o.h.decl) + ".on(" + e + ", " + std::to_string(o.gate) + ");";
    }
    if (o.h.k == 1 && path % 4 == 2 && o.gate == 1) return "farrx(r" + std::to_string(o.h.decl) + ", " + std::to_string(o.h.elem) + ");";
    if (o.h.k == 3 && path % 4 == 2 && o.gate == 0) return "p" + std::to_string(o.h.decl) + ".gh(" + std::to_string(o.h.elem) + ");";
    if (path % 2 == 1) return std::string("f") + gateName(o.gate) + "(" + e + ang + ");";
    return std::string(gateName(o.gate)) + "(" + e + ang + ");";
}

inline Rendered render(const Plan& p, bool trackedFields = true) {
    Rendered R;
    std::string pre = preamble(trackedFields, p.staticQubit);
    int line = 1;
    for (char c : pre)
        if (c == '\n') ++line;
    std::string s = pre;
    if (p.shots > 0) { s += "@shots(" + std::to_string(p.shots) + ")\n"; ++line; }
    s += "function main() -> void {\n";
    ++line;
    R.mainFirstLine = line;
    std::vector<DeclInfo> decls;
    auto add = [&](const std::string& stmt, int op, bool first) {
        s += "    " + stmt + "\n";
        R.stmtOp.push_back(op);
        R.stmtFirst.push_back(first);
    };
    int declCounter = 0;
    for (size_t i = 0; i < p.ops.size(); ++i) {
        const Op& o = p.ops[i];
        int oi = (int)i;
        switch (o.kind) {
            case DECL: add(std::string(o.tracked ? "@tracked " : "") + "qubit q" + std::to_string(declCounter++) + ";", oi, true); break;
            case DECLARR: add(std::string(o.tracked ? "@tracked " : "") + "qubit[" + std::to_string(o.size) + "] r" + std::to_string(declCounter++) + ";", oi, true); break;
            case NEWOBJ1: add(std::string("Q1 o") + std::to_string(declCounter) + (o.path % 8 == 6 ? " = new Q1M();" : o.path % 8 == 7 ? " = new Q1Y();" : o.path % 4 == 1 ? " = new Q1D();" : o.path % 4 == 3 ? " = new Q1X();" : " = new Q1();"), oi, true); ++declCounter; break;
            case NEWOBJ2: add("Q2 p" + std::to_string(declCounter) + " = new Q2();", oi, true); ++declCounter; break;
            case GATE:
                if (o.loop >= 2) add("for (int lp" + std::to_string(oi) + " = 0; lp" + std::to_string(oi) + " < " + std::to_string(o.loop) + "; lp" + std::to_string(oi) + " = lp" + std::to_string(oi) + " + 1) { " + gateCall(o, decls) + " }", oi, true);
                else add(gateCall(o, decls), oi, true);
                break;
            case IFGATE: add("if (b" + std::to_string(o.cond) + ") { " + gateCall(o, decls) + " }", oi, true); break;
            case CX: {
                std::string a = handleExpr(o.h), b = handleExpr(o.h2);
                if (o.h.k == 2 && o.path % 3 == 2) add("o" + std::to_string(o.h.decl) + ".cxTo(" + b + ");", oi, true);
                else if (o.h2.k == 2 && o.path % 3 == 2) add("o" + std::to_string(o.h2.decl) + ".cxFrom(" + a + ");", oi, true);
                else if (o.path % 3 == 1) add("fcx(" + a + ", " + b + ");", oi, true);
                else add("cx(" + a + ", " + b + ");", oi, true);
                break;
            }
            case MEAS_STMT: {
                std::string e = handleExpr(o.h);
                if (o.h.k == 2 && o.path % 3 == 2) add("o" + std::to_string(o.h.decl) + ".ms();", oi, true);
                else if (o.path % 3 == 1) add("fmeasures(" + e + ");", oi, true);
                else add("measure " + e + ";", oi, true);
                break;
            }
            case MEAS_EXPR: {
                std::string e = handleExpr(o.h), b = "b" + std::to_string(o.bitvar);
                if (o.bitvar < 0) { add("echo(measure " + e + ");", oi, true); break; }
                if (o.h.k == 2 && o.path % 4 == 3) add("bit " + b + " = o" + std::to_string(o.h.decl) + ".m();", oi, true);
                else if (o.path % 4 == 1) add("bit " + b + " = fmeasure(" + e + ");", oi, true);
                else if (o.path % 4 == 2) add("bit " + b + " = qmeasure(" + e + ");", oi, true);
                else add("bit " + b + " = measure " + e + ";", oi, true);
                add("echo(\"" + b + "=\" + " + b + ");", oi, false);
                break;
            }
            case MEAS_ARR: {
                if (o.h.k == 3) {
                    if (o.path % 2) add("p" + std::to_string(o.h.decl) + ".mAll();", oi, true);
                    else add("measure p" + std::to_string(o.h.decl) + ".qs;", oi, true);
                } else {
                    if (o.path % 2) add("farrm(r" + std::to_string(o.h.decl) + ");", oi, true);
                    else add("measure r" + std::to_string(o.h.decl) + ";", oi, true);
                }
                break;
            }
            case RESET: {
                std::string e = handleExpr(o.h);
                if (o.h.k == 2 && o.path % 3 == 2) add("o" + std::to_string(o.h.decl) + ".r();", oi, true);
                else if (o.path % 3 == 1) add("freset(" + e + ");", oi, true);
                else add("reset " + e + ";", oi, true);
                break;
            }
            case CYCLE: add("mkCycle();", oi, true); break;
            case FACTORY: add("qubit q" + std::to_string(declCounter++) + (o.gate == 0 ? " = prepH();" : " = prepN();"), oi, true); break;
            case ALIAS: add("qubit a" + std::to_string(declCounter++) + " = " + handleExpr(o.h2) + ";", oi, true); break;
            case PORT:
                add("Port t" + std::to_string(declCounter) + " = new Port();", oi, true);
                add("t" + std::to_string(declCounter) + (o.path % 2 ? ".attach(" + handleExpr(o.h2) + ");" : ".q = " + handleExpr(o.h2) + ";"), oi, false);
                ++declCounter;
                break;
            case REBIND: add("t" + std::to_string(o.h.decl) + (o.path % 2 ? ".attach(" + handleExpr(o.h2) + ");" : ".q = " + handleExpr(o.h2) + ";"), oi, true); break;
            case DROP: {
                std::string v = (o.h.k == 2 ? "o" : "p") + std::to_string(o.h.decl);
                if (o.viaDestroy) add("destroy " + v + ";", oi, true);
                else add(v + " = null;", oi, true);
                break;
            }
        }
    }
    add("echo(\"end\");", (int)p.ops.size(), true);
    s += "}\n";
    R.source = s;
    return R;
}

// ---- JSON ------------------------------------------------------------------------------------------
inline Json handleJson(const Handle& h) { return Json::object().set("k", h.k).set("decl", h.decl).set("elem", h.elem).set("bit", h.viaBit); }
inline Handle handleFrom(const Json& j) { Handle h; h.k = (int)j.at("k").asInt(); h.decl = (int)j.at("decl").asInt(); h.elem = (int)j.at("elem").asInt(); h.viaBit = j.at("bit").asBool(); return h; }
inline Json toJson(const Plan& p) {
    Json a = Json::array();
    for (auto& o : p.ops) {
        Json j = Json::object();
        j.set("op", kindName(o.kind)).set("kind", o.kind).set("h", handleJson(o.h)).set("h2", handleJson(o.h2)).set("gate", o.gate).set("angle", o.angle).set("neg", o.angleNeg).set("path", o.path).set("cond", o.cond)
            .set("tracked", o.tracked).set("size", o.size).set("destroy", o.viaDestroy).set("draw", o.drawKind).set("r64", sim::hex64(o.r64)).set("r64b", sim::hex64(o.r64b)).set("bitvar", o.bitvar).set("loop", o.loop).set("arg_effect", o.argEffect);
        a.push(j);
    }
    return Json::object().set("ops", a).set("shots", p.shots).set("static_qubit", p.staticQubit);
}
inline Plan fromJson(const Json& j) {
    Plan p;
    p.shots = (int)j.at("shots").asInt();
    p.staticQubit = j.at("static_qubit").asBool();
    for (auto& e : j.at("ops").a) {
        Op o;
        o.kind = (int)e.at("kind").asInt();
        o.h = handleFrom(e.at("h"));
        o.h2 = handleFrom(e.at("h2"));
        o.gate = (int)e.at("gate").asInt();
        o.angle = (int)e.at("angle").asInt();
        o.angleNeg = e.at("neg").asBool();
        o.path = (int)e.at("path").asInt();
        o.cond = (int)e.at("cond").asInt(-1);
        o.tracked = e.at("tracked").asBool();
        o.size = (int)e.at("size").asInt(2);
        o.viaDestroy = e.at("destroy").asBool();
        o.drawKind = (int)e.at("draw").asInt();
        o.r64 = strtoull(e.at("r64").asStr().c_str(), nullptr, 16);
        o.r64b = strtoull(e.at("r64b").asStr().c_str(), nullptr, 16);
        o.bitvar = (int)e.at("bitvar").asInt(-1);
        o.loop = e.has("loop") ? (int)e.at("loop").asInt(0) : 0;
        o.argEffect = e.has("arg_effect") ? (int)e.at("arg_effect").asInt(0) : 0;
        p.ops.push_back(o);
    }
    return p;
}

// ---- generator ---------------------------------------------------------------------------------------
struct GenOptions {
    int maxOps = 24;
    int maxQubits = 7;
    double guardViolationProb = 0.0;   // C06: probability that an op deliberately touches a measured qubit
    double entangleBias = 0.5;
    double resetShare = 0.12;
    double objectShare = 0.25;
    bool tracked = false;              // mark declarations @tracked (C17)
    double boundaryDrawProb = 0.15;
    double aliasProb = 0.0;            // copy an object's qubit handle into a variable that may outlive the object
    double cycleProb = 0.0;            // leave a garbage cycle of subclass objects whose base class owns a qubit
    double echoMeasureProb = 0.1;      // measure nested directly in an echo argument
    double sameQubitCxProb = 0.0;      // cx whose two operands are the same qubit, passed through two function parameters
    bool staticQubit = false;
    double argEffectProb = 0.0;        // rotations whose angle argument resets (legal) or measures (ends the program) the target
    double hugeLoopProb = 0.0;         // a Pauli/Hadamard gate inside a loop of a little over 2^20 iterations (at most one per plan)
    double nonFiniteAngleProb = 0.0;   // a rotation whose angle is computed as inf or NaN (ends the program)
    double portProb = 0.0;             // an object whose qubit field is re-pointed at local qubits by assignment
};

// Generator-side bookkeeping mirrors the interpreter's notion of which qubits are measured, so that
// histories meant to stay legal do stay legal whatever the outcomes are.
inline Plan generate(sim::Rng& g, const GenOptions& go) {
    Plan p;
    struct QRef { Handle h; bool measured; };
    std::vector<DeclInfo> decls;
    std::vector<QRef> live;      // all live qubit handles
    int allocated = 0;           // simulator qubits allocated so far (upper bound incl. reuse)
    int freeSlots = 0;
    int bitvars = 0;
    std::vector<int> aliases;    // declaration ids of alias variables
    std::vector<int> ports, portTarget;   // declaration ids of Port objects and the local each is bound to
    auto addHandles = [&](int declId) {
        const DeclInfo& d = decls[(size_t)declId];
        if (d.kind == 0) live.push_back({{0, declId, 0}, false});
        else if (d.kind == 1) for (int e = 0; e < d.size; ++e) live.push_back({{1, declId, e}, false});
        else if (d.kind == 2) live.push_back({{2, declId, 0}, false});
        else for (int e = 0; e < 2; ++e) live.push_back({{3, declId, e}, false});
    };
    auto takeQubits = [&](int n) {
        int reuse = std::min(freeSlots, n);
        freeSlots -= reuse;
        allocated += n - reuse;
    };
    auto drawSpec = [&](Op& o) {
        o.r64 = g.next();
        o.r64b = g.next();
        if (g.chance(go.boundaryDrawProb)) o.drawKind = 1 + (int)g.below(4);
    };
    int n = g.range(3, go.maxOps);
    bool stop = false;
    bool hugeLoopUsed = false;
    if (go.staticQubit) { p.staticQubit = true; live.push_back({{5, 0, 0}, false}); allocated += 1; }
    for (int i = 0; i < n && !stop; ++i) {
        Op o;
        o.path = (int)g.below(12);
        std::vector<size_t> active, measuredIdx;
        for (size_t k = 0; k < live.size(); ++k) (live[k].measured ? measuredIdx : active).push_back(k);
        if (go.cycleProb > 0 && g.chance(go.cycleProb) && allocated + 2 <= go.maxQubits + freeSlots) {
            o.kind = CYCLE;
            takeQubits(2);
            p.ops.push_back(o);
            continue;
        }
        if (go.aliasProb > 0 && g.chance(go.aliasProb) && allocated + 1 <= go.maxQubits + freeSlots) {
            std::vector<size_t> objs;
            bool localTargets = g.chance(0.4);   // 'qubit b = a;' naming a local or a register element a second time
            for (size_t k = 0; k < live.size(); ++k)
                if (localTargets ? (live[k].h.k == 0 || live[k].h.k == 1) : live[k].h.k == 2) objs.push_back(k);
            if (!objs.empty()) {
                o.kind = ALIAS;
                o.h2 = live[objs[g.below(objs.size())]].h;
                DeclInfo d;
                d.kind = 4;
                decls.push_back(d);
                takeQubits(1);
                aliases.push_back((int)decls.size() - 1);
                p.ops.push_back(o);
                continue;
            }
        }
        if (go.portProb > 0 && g.chance(ports.empty() ? go.portProb : 0.25)) {
            std::vector<int> vars;   // live scalar locals
            for (auto& r : live) if (r.h.k == 0) vars.push_back(r.h.decl);
            if (!ports.empty() && vars.size() >= 2 && g.chance(0.8)) {
                size_t pi = g.below(ports.size());
                int target = vars[g.below(vars.size())];
                if (target != portTarget[pi]) {
                    o.kind = REBIND;
                    o.h = Handle{6, ports[pi], 0};
                    o.h2 = Handle{0, target, 0};
                    portTarget[pi] = target;
                    p.ops.push_back(o);
                    continue;
                }
            } else if (!vars.empty() && ports.size() < 2 && allocated + 1 <= go.maxQubits + freeSlots) {
                o.kind = PORT;
                int target = vars[g.below(vars.size())];
                o.h2 = Handle{0, target, 0};
                DeclInfo d;
                d.kind = 5;
                decls.push_back(d);
                takeQubits(1);
                ports.push_back((int)decls.size() - 1);
                portTarget.push_back(target);
                p.ops.push_back(o);
                continue;
            }
        }
        if (!ports.empty() && g.chance(0.25)) {
            size_t pi = g.below(ports.size());
            bool targetMeasured = false;
            for (auto& r : live) if (r.h.k == 0 && r.h.decl == portTarget[pi]) targetMeasured = r.measured;
            if (!targetMeasured) {
                o.kind = GATE;
                o.h = Handle{6, ports[pi], 0};
                o.gate = g.chance(0.5) ? 1 : (int)g.below(7);
                o.angle = (int)g.below(20);
                o.path = (int)g.below(2);
                p.ops.push_back(o);
                continue;
            }
        }
        if (!aliases.empty() && g.chance(0.3)) {
            o.kind = GATE;
            o.h = Handle{4, aliases[g.below(aliases.size())], 0};
            o.gate = g.chance(0.5) ? 1 : (int)g.below(7);
            o.angle = (int)g.below(20);
            o.path = (int)g.below(2);
            p.ops.push_back(o);
            continue;
        }
        if (go.sameQubitCxProb > 0 && !live.empty() && g.chance(go.sameQubitCxProb)) {
            std::vector<size_t> act2;
            for (size_t k = 0; k < live.size(); ++k) if (!live[k].measured && live[k].h.k != 4) act2.push_back(k);
            if (!act2.empty()) {
                o.kind = CX;
                o.h = o.h2 = live[act2[g.below(act2.size())]].h;
                o.path = 1;  // fcx(a, a): two parameters bound to one qubit - accepted by any analyser
                p.ops.push_back(o);
                stop = true;
                continue;
            }
        }
        double u = g.unit();
        bool wantGuard = go.guardViolationProb > 0 && !measuredIdx.empty() && g.chance(go.guardViolationProb);
        if (live.empty() || (u < 0.15 && allocated - 0 < go.maxQubits)) {
            // declare something
            double v = g.unit();
            DeclInfo d;
            if (v < go.objectShare * 0.6 && allocated + 1 <= go.maxQubits + freeSlots) { d.kind = 2; d.size = 1; o.kind = NEWOBJ1; }
            else if (v < go.objectShare && allocated + 2 <= go.maxQubits + freeSlots) { d.kind = 3; d.size = 2; o.kind = NEWOBJ2; }
            else if (v < go.objectShare + 0.2 && allocated + 2 <= go.maxQubits + freeSlots) { d.kind = 1; d.size = 2; o.kind = DECLARR; o.size = 2; }
            else if (allocated + 2 <= go.maxQubits + freeSlots && g.chance(0.15)) { d.kind = 0; d.size = 1; o.kind = FACTORY; o.gate = (int)g.below(2); takeQubits(1); }
            else if (allocated + 1 <= go.maxQubits + freeSlots) { d.kind = 0; d.size = 1; o.kind = DECL; }
            else continue;
            d.tracked = go.tracked && g.chance(0.6);
            o.tracked = d.tracked && (d.kind == 0 || d.kind == 1) && o.kind != FACTORY;
            if (o.kind == FACTORY) d.tracked = false;
            decls.push_back(d);
            takeQubits(d.size);
            addHandles((int)decls.size() - 1);
            p.ops.push_back(o);
            continue;
        }
        if (wantGuard) {
            // touch a measured qubit: gate, second measure or cx operand
            size_t k = measuredIdx[g.below(measuredIdx.size())];
            int w = (int)g.below(5);
            if (w == 4 && (live[k].h.k == 1 || live[k].h.k == 3)) {
                o.kind = MEAS_ARR;
                o.h = Handle{live[k].h.k, live[k].h.decl, 0};
                drawSpec(o);
                p.ops.push_back(o);
                stop = true;
                continue;
            }
            if (w == 4) w = 0;
            if (w == 0 || active.empty()) { o.kind = GATE; o.h = live[k].h; o.gate = (int)g.below(7); o.angle = (int)g.below(20); }
            else if (w == 1) { o.kind = g.chance(0.5) ? MEAS_STMT : MEAS_EXPR; o.h = live[k].h; if (o.kind == MEAS_EXPR) o.bitvar = bitvars++; drawSpec(o); }
            else { o.kind = CX; size_t a = active[g.below(active.size())]; if (w == 2) { o.h = live[k].h; o.h2 = live[a].h; } else { o.h = live[a].h; o.h2 = live[k].h; } }
            p.ops.push_back(o);
            stop = true;  // the program ends here
            continue;
        }
        if (u < 0.15 + go.resetShare && !live.empty()) {
            size_t k = g.below(live.size());
            o.kind = RESET;
            o.h = live[k].h;
            drawSpec(o);
            live[k].measured = false;
            p.ops.push_back(o);
            continue;
        }
        if (u < 0.15 + go.resetShare + 0.06) {
            // drop an object
            std::vector<int> objs;
            for (size_t d = 0; d < decls.size(); ++d)
                if (decls[d].alive && (decls[d].kind == 2 || decls[d].kind == 3)) objs.push_back((int)d);
            if (!objs.empty()) {
                int d = objs[g.below(objs.size())];
                o.kind = DROP;
                o.h = Handle{decls[(size_t)d].kind, d, 0};
                o.viaDestroy = g.chance(0.4);
                drawSpec(o);
                decls[(size_t)d].alive = false;
                freeSlots += decls[(size_t)d].size;
                std::vector<QRef> keep;
                for (auto& r : live)
                    if (r.h.decl != d) keep.push_back(r);
                live.swap(keep);
                p.ops.push_back(o);
                continue;
            }
        }
        if (go.argEffectProb > 0 && g.chance(go.argEffectProb)) {
            // angle argument with a side effect on the target: reset of a measured qubit (then usable), or measurement of an active one
            bool viaReset = !measuredIdx.empty() && g.chance(0.6);
            if (viaReset || !active.empty()) {
                size_t k = viaReset ? measuredIdx[g.below(measuredIdx.size())] : active[g.below(active.size())];
                if (live[k].h.k != 4 && live[k].h.k != 6) {
                    o.kind = GATE;
                    o.h = live[k].h;
                    o.gate = 4 + (int)g.below(3);
                    o.argEffect = viaReset ? 1 : 2;
                    o.r64 = g.next();
                    o.r64b = g.next();
                    if (viaReset) live[k].measured = false; else stop = true;
                    p.ops.push_back(o);
                    continue;
                }
            }
        }
        if (active.empty()) continue;
        if (u < 0.55) {
            o.kind = GATE;
            o.h = live[active[g.below(active.size())]].h;
            o.gate = g.chance(go.entangleBias) ? (g.chance(0.6) ? 0 : 5) : (int)g.below(7);
            o.angle = (int)g.below(20);
            o.angleNeg = g.chance(0.3);
            if (bitvars > 0 && g.chance(0.15)) { o.kind = IFGATE; o.cond = (int)g.below((uint64_t)bitvars); }
            else if (g.chance(0.08)) o.loop = 2 + (int)g.below(2);
            if (go.hugeLoopProb > 0 && !hugeLoopUsed && o.kind == GATE && g.chance(go.hugeLoopProb)) { o.loop = (1 << 20) + 1 + (int)g.below(3); o.gate = (int)g.below(4); o.path = 0; hugeLoopUsed = true; }
            if (go.nonFiniteAngleProb > 0 && o.gate >= 4 && o.kind == GATE && g.chance(go.nonFiniteAngleProb)) { o.angle = 20 + (int)g.below(2); stop = true; }
            else if (o.gate >= 4 && g.chance(0.01)) o.angle = 22;
            p.ops.push_back(o);
        } else if (u < 0.78 && active.size() >= 2) {
            o.kind = CX;
            size_t a = active[g.below(active.size())], b = active[g.below(active.size())];
            if (a == b) continue;
            o.h = live[a].h;
            o.h2 = live[b].h;
            p.ops.push_back(o);
        } else {
            size_t k = active[g.below(active.size())];
            const Handle& h = live[k].h;
            bool arr = (h.k == 1 || h.k == 3) && g.chance(0.3);
            if (arr) {
                // whole-array measure only if every element is active
                bool all = true;
                for (auto& r : live)
                    if (r.h.k == h.k && r.h.decl == h.decl && r.measured) all = false;
                if (!all) continue;
                o.kind = MEAS_ARR;
                o.h = Handle{h.k, h.decl, 0};
                drawSpec(o);
                for (auto& r : live)
                    if (r.h.k == h.k && r.h.decl == h.decl) r.measured = true;
            } else {
                o.kind = g.chance(0.5) ? MEAS_STMT : MEAS_EXPR;
                o.h = h;
                if (o.kind == MEAS_EXPR) o.bitvar = g.chance(go.echoMeasureProb) ? -1 : bitvars++;
                drawSpec(o);
                live[k].measured = true;
            }
            p.ops.push_back(o);
        }
    }
    for (auto& o : p.ops) {
        if (o.kind >= GATE && o.kind != DROP && o.kind != CYCLE && o.kind != ALIAS && o.kind != FACTORY && o.kind != PORT && o.kind != REBIND) {
            if (o.h.k == 1 && o.kind != MEAS_ARR && g.chance(0.2)) o.h.viaBit = true;
            if (o.kind == CX && o.h2.k == 1 && g.chance(0.2)) o.h2.viaBit = true;
        }
    }
    // drop every remaining object explicitly so that no object dies in the unordered scope teardown
    for (size_t d = 0; d < decls.size(); ++d) {
        if (decls[d].alive && (decls[d].kind == 2 || decls[d].kind == 3) && !stop) {
            Op o;
            o.kind = DROP;
            o.h = Handle{decls[d].kind, (int)d, 0};
            o.viaDestroy = g.chance(0.4);
            o.r64 = g.next();
            o.r64b = g.next();
            p.ops.push_back(o);
        }
    }
    return p;
}

// ---- reference interpreter ---------------------------------------------------------------------------
struct Finding {
    std::string cls;
    std::string owner;   // property that owns this oracle
    std::string detail;
};

// What the engine observed from the real evaluator at the end of an op (at the next main-level yield).
struct Observation {
    std::vector<cplx> state;               // m_sim.m_state
    int simQubits = 0;
    std::vector<int> lastMeasurement;      // evaluator's m_lastMeasurement
    std::vector<bool> evalMeasured;        // m_qubits[i].measured
    std::vector<bool> simMeasured;         // m_sim.m_measured
    std::vector<uint32_t> words;           // words drawn during the op
    std::map<std::string, std::vector<int>> declIndices;  // "q0" -> {idx}, "r1" -> {..}, "o2" -> {..} for live declarations
    std::map<int, int> bitvars;            // bit variable values visible in main's scope
    std::vector<int> freeList;             // evaluator's m_freeQubitIndices
};

struct TrackedEvent { std::string name; std::string outcome; };

struct Interp {
    SV sv;
    std::vector<bool> measured;
    std::vector<int> lastMeas;
    std::vector<int> freeList;
    std::vector<DeclInfo> decls;
    std::vector<std::vector<int>> declIdx;     // sim indices per declaration
    std::map<int, int> bitvars;
    std::vector<std::string> qasm;             // predicted log lines
    std::vector<int> outcomes;                 // measure outcomes / reset branches in log order (-1: no genuine choice)
    std::vector<TrackedEvent> tracked;         // tracked outcomes recorded by object deaths (scope exits are added by the caller)
    std::map<std::string, std::map<std::string, int>> trackedDeaths;   // "<class>.<field>" -> outcome -> count, for objects dropped so far
    bool expectError = false;                  // the op just applied must have ended the program with a runtime error
    bool nonFiniteAngle = false;               // ... because it is a rotation by an infinite or NaN angle
    int orientation = 0;                       // 0: branch one iff r*(w0+w1) < w1 ; 1: mirrored ; -1 unknown
    bool deferredError = false;                // a destructor of the op just applied raised an error that surfaces at the next boundary
    bool adoptObserved = false;                // a noise-weight branch was selected in the current op
    uint64_t noiseBranches = 0;
    uint64_t ambiguous = 0, uncertainDraws = 0, genuineResets = 0, entangledResets = 0, boundaryDraws = 0, reuseEvents = 0, noncanonicalDraws = 0, zeroProbForced = 0;
    double tol = 1e-9;

    int staticIdx = -1;
    void begin(const Plan& p) { if (p.staticQubit) staticIdx = allocIndex(); }
    int resolve(const Handle& h) const { if (h.k == 5) return staticIdx; return declIdx[(size_t)h.decl][(size_t)((h.k == 1 || h.k == 3) ? h.elem : 0)]; }
    std::vector<int> leaked;                   // indices allocated but owned by nothing the program can name
    std::map<int, int> aliasTarget;            // alias decl id -> decl id it was copied from

    int allocIndex() {
        int idx;
        if (!freeList.empty()) {
            idx = freeList.back();
            freeList.pop_back();
            double p1 = sv.prob1(idx);
            sv.resetBranch(idx, p1 > 0.5 ? 1 : 0);
            qasm.push_back("reset q[" + std::to_string(idx) + "];");
            outcomes.push_back(-1);
            measured[(size_t)idx] = false;
            lastMeas[(size_t)idx] = -1;
            ++reuseEvents;
        } else {
            idx = sv.alloc();
            measured.push_back(false);
            lastMeas.push_back(-1);
        }
        return idx;
    }

    static std::string fmtAngle(double t) {
        char b[64];
        snprintf(b, sizeof b, "%f", t);
        return b;
    }

    // Stage the words the coming op will draw (called at op start, with the model state before the op).
    std::vector<uint64_t> drawsFor(const Op& o) {
        std::vector<uint64_t> d;
        auto spec = [&](uint64_t bits, double threshold, bool first) -> uint64_t {
            if (!first || o.drawKind == 0) return bits;
            ++boundaryDraws;
            switch (o.drawKind) {
                case 1: return 0;
                case 2: return ~0ull;
                case 3: return refq::unitToBits(threshold * (1 - 1e-12) - 1e-15);
                case 4: return refq::unitToBits(threshold * (1 + 1e-12) + 1e-15);
            }
            return bits;
        };
        if (o.kind == GATE && o.gate >= 4 && o.argEffect == 2) {
            if (o.h.k == 5 || o.h.decl < (int)declIdx.size()) d.push_back(spec(o.r64, sv.prob1(resolve(o.h)), true));
        } else if (o.kind == MEAS_STMT || o.kind == MEAS_EXPR) {
            if (o.h.k == 5 || o.h.decl < (int)declIdx.size()) d.push_back(spec(o.r64, sv.prob1(resolve(o.h)), true));
        } else if (o.kind == MEAS_ARR) {
            d.push_back(spec(o.r64, sv.prob1(declIdx[(size_t)o.h.decl][0]), true));
            d.push_back(o.r64b);
        } else if (o.kind == RESET) {
            int q = resolve(o.h);
            double p1 = sv.prob1(q), n = sv.norm2();
            d.push_back(spec(o.r64, n > 0 ? p1 / n : 0, true));
        } else if (o.kind == DROP) {
            int q = declIdx[(size_t)o.h.decl][0];
            double p1 = sv.prob1(q), n = sv.norm2();
            d.push_back(spec(o.r64, n > 0 ? p1 / n : 0, true));
            d.push_back(o.r64b);
        }
        return d;
    }

    // one measurement sub-step; consumes two words from `words` at `wpos` when available
    void measureOne(int q, const Observation& ob, size_t& wpos, bool canonical, std::vector<Finding>& out, int opIndex) {
        double p1 = sv.prob1(q);
        int observed = (q < (int)ob.lastMeasurement.size()) ? ob.lastMeasurement[(size_t)q] : -1;
        int outcome = observed;
        bool haveR = canonical && wpos + 2 <= ob.words.size();
        double r = 0;
        if (haveR) { r = refq::wordsToUnit(ob.words[wpos], ob.words[wpos + 1]); wpos += 2; }
        if (observed != 0 && observed != 1) {
            out.push_back({"measure_outcome_not_recorded", "C02", "op " + std::to_string(opIndex) + ": no last-measurement value recorded for q[" + std::to_string(q) + "] after measure"});
            outcome = haveR ? (r < p1 ? 1 : 0) : (p1 > 0.5 ? 1 : 0);
        }
        double pw = outcome ? p1 : 1 - p1;
        if (pw < 1e-9) {
            // An outcome whose weight is rounding noise was selected (legal when the draw falls below it, and
            // forced by boundary draws). Projecting the model onto it would amplify the model's own noise,
            // so the model adopts the observed post-state after checking that it is a valid collapsed state.
            adoptObserved = true;
            ++noiseBranches;
        } else if (haveR) {
            if (std::fabs(r - p1) <= 1e-9) ++ambiguous;
            else if ((r < p1 ? 1 : 0) != outcome)
                out.push_back({"outcome_inconsistent_with_draw", "C02", "op " + std::to_string(opIndex) + ": measure q[" + std::to_string(q) + "] returned " + std::to_string(outcome) + " for r=" + refq::fd(r) + ", p1=" + refq::fd(p1)});
        }
        sv.collapse(q, outcome);
        measured[(size_t)q] = true;
        lastMeas[(size_t)q] = outcome;
        qasm.push_back("measure q[" + std::to_string(q) + "] -> c[" + std::to_string(q) + "];");
        outcomes.push_back(outcome);
    }

    // Applies op `o`. `ob` is what the real evaluator looked like after the op (or at the failure point).
    // `failed` tells whether the real run ended with a runtime error inside this op.
    void apply(const Op& o, int opIndex, const Observation& ob, bool failed, std::vector<Finding>& out) {
        expectError = false;
        nonFiniteAngle = false;
        adoptObserved = false;
        deferredError = false;
        applyInner(o, opIndex, ob, failed, out);
        if (adoptObserved && !failed && ob.state.size() == sv.a.size()) {
            // validity of the observed state itself (finite, unit norm) is checked by the boundary checks;
            // here: every qubit the model believes measured/reset must be definite in the observed state
            SV obs;
            obs.n = sv.n;
            obs.a = ob.state;
            for (int q = 0; q < sv.n; ++q) {
                double mp = sv.prob1(q), op1 = obs.prob1(q);
                bool modelDefinite = mp < 1e-9 || mp > 1 - 1e-9;
                if (modelDefinite && sv.norm2() > 0.5 && std::fabs(mp - op1) > 1e-6)
                    out.push_back({"collapsed_state_not_in_outcome_subspace", "C02", "op " + std::to_string(opIndex) + ": after selecting a low-weight outcome q[" + std::to_string(q) + "] has p1=" + refq::fd(op1) + ", expected " + refq::fd(mp)});
            }
            sv.a = ob.state;
        }
    }
    void applyInner(const Op& o, int opIndex, const Observation& ob, bool failed, std::vector<Finding>& out) {
        auto guard = [&](int q) {
            if (measured[(size_t)q]) { expectError = true; return true; }
            return false;
        };
        switch (o.kind) {
            case DECL:
            case DECLARR:
            case NEWOBJ1:
            case NEWOBJ2: {
                DeclInfo d;
                d.kind = o.kind == DECL ? 0 : o.kind == DECLARR ? 1 : o.kind == NEWOBJ1 ? 2 : 3;
                d.size = o.kind == DECLARR ? o.size : (o.kind == NEWOBJ2 ? 2 : 1);
                d.tracked = o.tracked;
                d.dtorGate = o.kind == NEWOBJ1 && o.path % 4 == 3;
                d.dtorMeasure = o.kind == NEWOBJ1 && o.path % 8 == 6;
                d.dtorTemp = o.kind == NEWOBJ1 && o.path % 8 == 7;
                d.cls = o.kind == NEWOBJ2 ? "Q2" : o.kind != NEWOBJ1 ? "" : d.dtorMeasure ? "Q1M" : o.path % 4 == 1 ? "Q1D" : d.dtorTemp ? "Q1Y" : d.dtorGate ? "Q1X" : "Q1";
                decls.push_back(d);
                std::vector<int> idx;
                std::vector<cplx> before = sv.a;
                size_t fresh = 0;
                for (int k = 0; k < d.size; ++k) {
                    bool reuse = !freeList.empty();
                    idx.push_back(allocIndex());
                    if (!reuse) ++fresh;
                }
                declIdx.push_back(idx);
                (void)before;
                break;
            }
            case CYCLE: {
                // two subclass objects whose base class owns a qubit, left as a garbage cycle: the collector may
                // sweep them at any time; their qubits are never released (they stay |0> and allocated)
                leaked.push_back(allocIndex());
                leaked.push_back(allocIndex());
                break;
            }
            case FACTORY: {
                // 'qubit q = prepH();': the declaration allocates a qubit of its own (then unreachable), the function's
                // local qubit is returned and keeps its index after the callee's scope has ended
                leaked.push_back(allocIndex());
                int idx = allocIndex();
                if (o.gate == 0) { sv.h(idx); qasm.push_back("h q[" + std::to_string(idx) + "];"); }
                DeclInfo d;
                d.kind = 0;
                decls.push_back(d);
                declIdx.push_back({idx});
                break;
            }
            case ALIAS: {
                // 'qubit a = o.q;' first allocates a qubit for the declaration, then overwrites the handle
                leaked.push_back(allocIndex());
                DeclInfo d;
                d.kind = 4;
                decls.push_back(d);
                declIdx.push_back({resolve(o.h2)});
                aliasTarget[(int)decls.size() - 1] = o.h2.decl;
                break;
            }
            case PORT: {
                // 'Port t = new Port();' allocates the object's own qubit; binding the field to a local leaves that
                // qubit allocated, |0>, and named by nothing. The field then denotes the local's qubit.
                leaked.push_back(allocIndex());
                DeclInfo d;
                d.kind = 5;
                decls.push_back(d);
                declIdx.push_back({resolve(o.h2)});
                break;
            }
            case REBIND: declIdx[(size_t)o.h.decl] = {resolve(o.h2)}; break;
            case GATE:
            case IFGATE: {
                if (o.kind == IFGATE) {
                    auto it = bitvars.find(o.cond);
                    if (it == bitvars.end() || !it->second) break;
                }
                int q = resolve(o.h);
                if (o.gate >= 4 && o.argEffect == 1) {
                    // the angle argument resets the target before the gate looks at it: a measured qubit becomes usable again
                    if (!measured[(size_t)q]) adoptObserved = true;   // (only generated for measured targets; a shrunk plan may differ)
                    int was = lastMeas[(size_t)q] > 0 ? 1 : 0;
                    sv.resetBranch(q, was);
                    qasm.push_back("reset q[" + std::to_string(q) + "];");
                    outcomes.push_back(-1);
                    measured[(size_t)q] = false;
                    lastMeas[(size_t)q] = -1;
                    sv.gate(o.gate, q, (double)0.3f);
                    qasm.push_back(std::string(gateName(o.gate)) + "(" + fmtAngle((double)0.3f) + ") q[" + std::to_string(q) + "];");
                    break;
                }
                if (o.gate >= 4 && o.argEffect == 2) {
                    // the angle argument measures the target: the measurement happens, then the gate is refused
                    if (guard(q)) break;   // already measured: the measure inside the argument is refused itself
                    size_t wpos = 0;
                    measureOne(q, ob, wpos, ob.words.size() == 2, out, opIndex);
                    expectError = true;
                    break;
                }
                if (o.gate >= 4 && !std::isfinite(angleValue(o))) { expectError = true; nonFiniteAngle = true; break; }   // a rotation by inf/NaN is refused
                if (guard(q)) break;
                double t = angleValue(o);
                for (int it = 0; it < (o.kind == GATE && o.loop >= 2 ? o.loop : 1); ++it) {
                    sv.gate(o.gate, q, t);
                    if (o.gate < 4) qasm.push_back(std::string(gateName(o.gate)) + " q[" + std::to_string(q) + "];");
                    else qasm.push_back(std::string(gateName(o.gate)) + "(" + fmtAngle(t) + ") q[" + std::to_string(q) + "];");
                }
                break;
            }
            case CX: {
                int c = resolve(o.h), t = resolve(o.h2);
                if (guard(c) || guard(t)) break;
                if (c == t) { expectError = true; break; }
                sv.cx(c, t);
                qasm.push_back("cx q[" + std::to_string(c) + "],q[" + std::to_string(t) + "];");
                break;
            }
            case MEAS_STMT:
            case MEAS_EXPR: {
                int q = resolve(o.h);
                if (guard(q)) break;
                size_t wpos = 0;
                bool canonical = ob.words.size() == 2;
                if (!canonical) ++noncanonicalDraws;
                if (ob.words.empty() && !failed) {
                    double p1 = sv.prob1(q);
                    if (p1 > 1e-9 && p1 < 1 - 1e-9)
                        out.push_back({"random_choice_without_randomness", "C02", "op " + std::to_string(opIndex) + ": measure of q[" + std::to_string(q) + "] with p1=" + refq::fd(p1) + " consumed no random words"});
                }
                measureOne(q, ob, wpos, canonical, out, opIndex);
                if (o.kind == MEAS_EXPR && o.bitvar >= 0) {
                    bitvars[o.bitvar] = lastMeas[(size_t)q];
                    auto it = ob.bitvars.find(o.bitvar);
                    if (!failed && (it == ob.bitvars.end() || it->second != lastMeas[(size_t)q]))
                        out.push_back({"stored_bit_differs_from_outcome", "C02", "op " + std::to_string(opIndex) + ": bit b" + std::to_string(o.bitvar) + " holds " + (it == ob.bitvars.end() ? std::string("nothing") : std::to_string(it->second)) + " but the simulator outcome was " + std::to_string(lastMeas[(size_t)q])});
                }
                break;
            }
            case MEAS_ARR: {
                const auto& idx = declIdx[(size_t)o.h.decl];
                size_t wpos = 0;
                bool canonical = ob.words.size() == 2 * idx.size();
                if (!canonical) ++noncanonicalDraws;
                for (int q : idx) {
                    if (guard(q)) break;
                    measureOne(q, ob, wpos, canonical, out, opIndex);
                }
                break;
            }
            case RESET:
            case DROP: {
                std::vector<int> targets;
                if (o.kind == RESET) targets.push_back(resolve(o.h));
                else targets = declIdx[(size_t)o.h.decl];
                if (o.kind == DROP && decls[(size_t)o.h.decl].dtorTemp) {
                    // the destructor's own qubit is allocated while the object still owns its field (it must not receive the
                    // field's index); it is never released and stays |1>
                    int t = allocIndex();
                    leaked.push_back(t);
                    sv.gate(1, t, 0);
                    qasm.push_back("x q[" + std::to_string(t) + "];");
                }
                if (o.kind == DROP && decls[(size_t)o.h.decl].dtorGate) {
                    // the user destructor runs first and applies h to the field qubit; on a measured qubit it is
                    // refused: the error is raised at the next statement boundary, after the object has been released
                    int q = targets[0];
                    if (measured[(size_t)q]) deferredError = true;
                    else { sv.h(q); qasm.push_back("h q[" + std::to_string(q) + "];"); }
                }
                // enumerate branch assignments; pick the one matching the observed post-state
                struct Cand { SV sv; std::vector<int> branch; std::vector<double> w1; std::vector<bool> genuine, uncertain; bool tiny = false; };
                std::vector<Cand> cands;
                cands.push_back({sv, {}, {}, {}, {}, false});
                for (int q : targets) {
                    std::vector<Cand> next;
                    for (auto& c : cands) {
                        double n = c.sv.norm2(), p1 = n > 0 ? c.sv.prob1(q) / n : 0, p0 = 1 - p1;
                        SV b0 = c.sv, b1 = c.sv;
                        bool has0 = p0 > 0, has1 = p1 > 0;
                        if (has0) b0.resetBranch(q, 0);
                        if (has1) b1.resetBranch(q, 1);
                        // global phase is unobservable: all comparisons are up to phase. A product state gives the
                        // same post-state for both branches, so the branch is neither observable nor needs randomness.
                        bool distinguishable = has0 && has1 && refq::maxDiffUpToPhase(b0.a, b1.a) > 1e-13;
                        bool physical = has0 && has1 && refq::maxDiffUpToPhase(b0.a, b1.a) > 1e-6;
                        if (!distinguishable) {
                            // product state (or one empty branch): the branch is unobservable and needs no randomness
                            Cand d = c;
                            d.sv = (has0 && (p0 >= p1 || !has1)) ? b0 : b1;
                            d.branch.push_back(-1);
                            d.w1.push_back(p1);
                            d.genuine.push_back(false);
                            d.uncertain.push_back(false);
                            next.push_back(std::move(d));
                            continue;
                        }
                        bool gen = physical && p1 > 1e-9 && p0 > 1e-9;
                        for (int b = 0; b < 2; ++b) {
                            Cand d = c;
                            d.sv = b ? b1 : b0;
                            d.branch.push_back(b);
                            d.w1.push_back(p1);
                            d.genuine.push_back(gen);
                            d.uncertain.push_back(physical && !gen);
                            if ((b ? p1 : p0) <= 1e-9) d.tiny = true;
                            next.push_back(std::move(d));
                        }
                    }
                    cands.swap(next);
                }
                int best = -1;
                double bestD = 1e9;
                for (size_t k = 0; k < cands.size(); ++k) {
                    double d = refq::maxDiffUpToPhase(cands[k].sv.a, ob.state);
                    if (d < bestD) { bestD = d; best = (int)k; }
                }
                if (best < 0) { out.push_back({"reset_model_has_no_branch", "C04", "op " + std::to_string(opIndex)}); break; }
                const Cand& c = cands[(size_t)best];
                bool anyTiny = false;
                for (auto& cc : cands) anyTiny = anyTiny || cc.tiny;
                if (c.tiny || (anyTiny && bestD > tol)) { adoptObserved = true; ++noiseBranches; }
                if (!failed && bestD > tol && !adoptObserved) {
                    out.push_back({"reset_post_state_matches_no_branch", "C04", "op " + std::to_string(opIndex) + " (" + kindName(o.kind) + "): state after reset is not the normalised |0>-moved projection of either branch (distance " + refq::fd(bestD) + ")"});
                }
                // is the choice of branches observable in the post-state at all? (not when every entangled
                // partner is reset by the same op, e.g. an object owning both halves of a pair)
                bool observable = false;
                for (size_t k = 0; k < cands.size() && !observable; ++k)
                    if ((int)k != best && refq::maxDiffUpToPhase(cands[k].sv.a, c.sv.a) > 1e-6) observable = true;
                size_t nGenuine = 0, nUncertain = 0;
                for (size_t k = 0; k < c.genuine.size(); ++k) { if (c.genuine[k]) ++nGenuine; if (c.uncertain[k]) ++nUncertain; }
                genuineResets += nGenuine;
                uncertainDraws += nUncertain;
                if (nGenuine > 0 && sv.a.size() > 2) ++entangledResets;
                if (!failed && nGenuine > 0 && observable && ob.words.empty())
                    out.push_back({"reset_choice_without_randomness", "C04", "op " + std::to_string(opIndex) + " (" + kindName(o.kind) + "): target has weight on both |0> and |1> (p1=" + refq::fd(c.w1[0]) + ") but no random words were consumed: the discarded branch is chosen deterministically, which changes the other qubits' statistics"});
                // consistency of the chosen branch with the draw, when attribution is unambiguous
                if (!failed && observable && nUncertain == 0 && ob.words.size() == 2 * nGenuine && orientation >= 0 && c.branch.size() == 1) {
                    size_t wpos = 0;
                    for (size_t k = 0; k < c.branch.size(); ++k) {
                        if (!c.genuine[k]) continue;
                        double r = refq::wordsToUnit(ob.words[wpos], ob.words[wpos + 1]);
                        wpos += 2;
                        double thr = orientation == 0 ? c.w1[k] : 1 - c.w1[k];
                        if (std::fabs(r - thr) <= 1e-9) { ++ambiguous; continue; }
                        if (c.branch[k] < 0) continue;
                        int expectOne = orientation == 0 ? (r < c.w1[k]) : (r >= 1 - c.w1[k]);
                        if (expectOne != c.branch[k])
                            out.push_back({"reset_branch_inconsistent_with_born_weights", "C04", "op " + std::to_string(opIndex) + ": draw r=" + refq::fd(r) + " with weight of |1> " + refq::fd(c.w1[k]) + " selected branch " + std::to_string(c.branch[k])});
                    }
                } else if (!failed && ob.words.size() != 2 * nGenuine) ++noncanonicalDraws;
                // commit
                sv = c.sv;
                if (o.kind == DROP) {
                    // the tracked outcome of the owner's qubit field(s): the last measurements when the object is released,
                    // i.e. after its user destructor has run (class Q1M: reset and measured there, so always 0)
                    const DeclInfo& d = decls[(size_t)o.h.decl];
                    std::string oc;
                    for (int q : targets) {
                        int lm = d.dtorMeasure ? 0 : lastMeas[(size_t)q];
                        if (lm < 0) { oc = "?"; break; }
                        oc.push_back(lm ? '1' : '0');
                    }
                    if (!d.cls.empty()) trackedDeaths[d.cls + (d.kind == 3 ? ".qs" : ".q")][oc]++;
                }
                for (size_t k = 0; k < targets.size(); ++k) {
                    int q = targets[k];
                    qasm.push_back("reset q[" + std::to_string(q) + "];");
                    outcomes.push_back(c.branch[k]);
                    if (o.kind == DROP && decls[(size_t)o.h.decl].dtorMeasure) {
                        // the destructor's own 'reset; measure' came first; the release then resets the (now |0>) qubit again
                        qasm.push_back("measure q[" + std::to_string(q) + "] -> c[" + std::to_string(q) + "];");
                        outcomes.push_back(0);
                        qasm.push_back("reset q[" + std::to_string(q) + "];");
                        outcomes.push_back(-1);
                    }
                    measured[(size_t)q] = false;
                    if (o.kind == RESET) lastMeas[(size_t)q] = -1;
                }
                if (o.kind == DROP) {
                    // tracked outcome is recorded before the reset, from the last measurements
                    for (int q : targets) { lastMeas[(size_t)q] = -1; freeList.push_back(q); }
                    decls[(size_t)o.h.decl].alive = false;
                }
                break;
            }
        }
    }
};

}  // namespace qh
