// Structured class-using Bloch programs for the gcsim engine (C11, C12, C18 workloads).
// A program is a fixed preamble of classes/helpers plus a generated list of main-statements, each
// an instance of a template that puts a freshly created object into an in-flight position while a
// later sub-expression executes statements (= contains yield points).
#pragma once

#include <string>
#include <vector>

#include "sim/core/core.hpp"

namespace classprog {

struct Stmt {
    int tpl = 0;
    int a = 0, b = 0, c = 0;
};

enum Tpl {
    T_ARG_BEFORE = 0,   // pass(mk(id), churn(k))
    T_ARG_AFTER,        // pass2(churnD(k), mk(id))
    T_CTOR_ARG,         // vX = new N(id, pick(mk(id2), churnMk(k)))
    T_SUPER_ARG,        // vX = new M(id)   (super(id, F.churnMk(id)), field initialiser F.mk(50))
    T_CHAIN,            // vX = mk(id).link(churnMk(k))
    T_NESTED_RET,       // vX = wrap2(id, k)
    T_MEMBER_ASSIGN,    // if (vX != null) vX.next = pick(mk(id), churnMk(k))
    T_EQ_OPERAND,       // echo(mk(id) == churnMk(k))
    T_CONCAT,           // echo("s" + mk(id).id + churn(k))
    T_STATIC_ASSIGN,    // F.keep = pick(mk(id), churnMk(k))
    T_LOOP_ALLOC,       // for 20: N t = new N(...)
    T_DESTROY,          // destroy vX
    T_CYCLE_DROP,       // build a 2-cycle (optionally with an acyclic tail), drop it
    T_VIRTUAL,          // echo(vX.tag())
    T_BOX,              // generic Box<N>
    T_RET_WHILE_DTOR,   // vX = retWhileDtor(id, k): pending return value while a local's destructor churns
    T_CHURN,            // plain churn(k)
    T_CHURN_D,          // churnD(k): destroy → requestGc
    T_SELF_CYCLE_LIVE,  // vX = mk(id); vX.next = vX;  live self cycle
    T_SHOW_ALL,         // echo all variables
    T_STATIC_CYCLE,     // F.keep = mk(id); F.keep.next = mk(id2); F.keep.next.next = F.keep
    T_DROP_VAR,         // vX = null
    T_KEEP_CHAIN,       // vX = new N(id, new N(id2, vY))
    T_DIAMOND_GENERIC,  // Box<N> b = new Box<>(mk(id)) (diamond inference)
    T_METHOD_CHURN,     // echo(vX.heavy(k)) : method executes churn while receiver only held by temp: mk(id).heavy(k)
    // ---- C12 edge templates (may end the program with a runtime error) ----
    T_E_DIV0,
    T_E_MOD0,
    T_E_LONGMIN_MOD,
    T_E_INDEX,
    T_E_NULL_FIELD,
    T_E_NULL_CALL,
    T_E_DEEP,
    T_E_VOVERLOAD,
    T_E_CTOR_ERR,
    T_E_FIELDINIT_ERR,
    T_E_INT_EXTREME,
    T_E_LITERAL_RANGE,
    T_E_CAST,
    T_E_NEG_ARRAY,
    T_E_DESTROY_TWICE,
    T_E_SUPER_CALL,
    T_E_DTOR_ERR,       // runtime error inside a user destructor (known finding D13) - only when enabled
    T_QCYCLE,           // garbage cycle whose nodes own an object with a qubit and an echoing destructor (known finding D19) - only when enabled
    T_E_GENERIC_STATIC, // generic class whose static initialiser instantiates the same specialisation
    T_DERIVED_LEAF,     // derived class that adds no reference field: its object owns another only through an inherited field
    T_E_DECL_ORDER,     // classes declared most-derived first (defect D22)
    T_E_RESURRECT,      // a destructor stores 'this' in a static field; the field is used afterwards (defect D24)
    T_E_GENERIC_BASE_ORDER,  // class derived from a generic instantiation whose template's base is declared last (defect D25)
    T_E_LONG_CHAIN,     // a list of about ten thousand nodes built in a loop and dropped (defect D26) - rare, it costs seconds
    T_QTEMP,            // a qubit-owning object that only a pending argument owns holds the only reference to a plain object
    T_E_EMPTY_ARRAY,    // reads from zero-length arrays
    T_E_SHARED_QUBIT,   // two objects hold the same qubit in a field and both are destroyed
    T_E_SIBLING,        // a base-typed variable re-assigned to a sibling subclass, then a virtual call
    T_E_STATIC_QOWNER,  // a qubit-owning object is still referenced from a static field when the run ends
    T_E_RECURSE,        // bounded recursion holding an object (with destructor) per frame, optionally failing at the bottom
    T_COUNT
};

inline const char* tplName(int t) {
    static const char* n[] = {"arg_before", "arg_after", "ctor_arg", "super_arg", "chain", "nested_ret", "member_assign", "eq_operand", "concat",
                              "static_assign", "loop_alloc", "destroy", "cycle_drop", "virtual", "box", "ret_while_dtor", "churn", "churn_d",
                              "self_cycle_live", "show_all", "static_cycle", "drop_var", "keep_chain", "diamond_generic", "method_churn",
                              "e_div0", "e_mod0", "e_longmin_mod", "e_index", "e_null_field", "e_null_call", "e_deep", "e_voverload", "e_ctor_err",
                              "e_fieldinit_err", "e_int_extreme", "e_literal_range", "e_cast", "e_neg_array", "e_destroy_twice", "e_super_call", "e_dtor_err", "qubit_owner_in_garbage_cycle", "e_generic_static", "derived_without_own_reference_fields", "e_declared_before_base", "e_destructor_stores_this", "e_generic_base_declared_later", "e_long_chain", "qubit_owner_as_pending_argument", "e_empty_array", "e_two_owners_of_one_qubit", "e_sibling_reassigned", "e_qubit_owner_left_in_static", "e_recurse"};
    return (t >= 0 && t < T_COUNT) ? n[t] : "?";
}

struct Plan {
    std::vector<Stmt> main;
    int nVars = 3;
    bool edge = false;       // include edge-case classes in the preamble
    bool dtorErr = false;    // allow T_E_DTOR_ERR
    bool qcycle = false;     // allow T_QCYCLE (classes QP/QL in the preamble)
    int speculative = -1;    // >= 0: one of the fixed programs the pinned analyser rejects (skipped unless accepted)
};

// Programs the pinned analyser rejects but a more permissive one might accept: if accepted they must still
// not crash the interpreter (C12). Methods named like built-in gates, called unqualified with fewer arguments.
inline std::string speculativeSource(int v) {
    switch (v % 4) {
        case 0: return "class G { public qubit q; public constructor() -> G = default;\n  public function x() -> void { echo(\"G.x\"); }\n  public function go() -> void { x(); echo(\"after\"); } }\nfunction main() -> void { G g = new G(); g.go(); echo(\"end\"); }\n";
        case 1: return "class G { public constructor() -> G = default;\n  public function cx(int k) -> int { return k + 1; }\n  public function go() -> void { echo(cx(1)); } }\nfunction main() -> void { G g = new G(); g.go(); echo(\"end\"); }\n";
        case 2: return "static class S { public static function rz() -> int { return 7; }\n  public static function go() -> int { return rz(); } }\nfunction main() -> void { echo(S.go()); echo(\"end\"); }\n";
        default: return "class G { public qubit q; public constructor() -> G = default;\n  public function ry(qubit p) -> void { h(p); }\n  public function go() -> void { ry(this.q); measure this.q; } }\nfunction main() -> void { G g = new G(); g.go(); echo(\"end\"); }\n";
    }
}
struct PlanFwd;

inline std::string preamble(const Plan& p) {
    std::string s;
    s +=
        "class N {\n"
        "    public int id;\n"
        "    public N next;\n"
        "    public N other;\n"
        "    public constructor(int id) -> N { this.id = id; this.next = null; this.other = null; return this; }\n"
        "    public constructor(int id, N nx) -> N { this.id = id; this.next = nx; this.other = null; return this; }\n"
        "    public destructor() -> void { echo(\"~N \" + this.id); if (this.next != null) { echo(\" nx \" + this.next.id); } }\n"
        "    public function link(N o) -> N { this.next = o; return this; }\n"
        "    public virtual function tag() -> int { return this.id; }\n"
        "    public function heavy(int k) -> int { int c = F.churn(k); return this.id + c; }\n"
        "}\n"
        "class M extends N {\n"
        "    public N extra = F.mk(50);\n"
        "    public N extra2 = F.churnMk(60);\n"
        "    public constructor(int id) -> M { super(id, F.churnMk(id)); return this; }\n"
        "    public override function tag() -> int { return this.id + 1000; }\n"
        "    public function baseTag() -> int { return super.tag(); }\n"
        "    public destructor() -> void { echo(\"~M \" + this.id); }\n"
        "}\n"
        "class L extends N {\n"
        "    public int w;\n"
        "    public constructor(int id) -> L { super(id, F.churnMk(id + 1)); this.w = id; return this; }\n"
        "}\n"
        "class QW { public qubit q; public N held; public constructor(N h) -> QW { this.held = h; return this; } }\n"
        "function passQ(QW w, int k) -> int { return w.held.id + k; }\n"
        "function passQ2(int k, QW w) -> int { return w.held.id + k; }\n"
        "class D {\n"
        "    public int k;\n"
        "    public constructor(int k) -> D { this.k = k; return this; }\n"
        "    public destructor() -> void { int c = F.churn(this.k); echo(\"~D \" + c); }\n"
        "}\n"
        "class Box<T> {\n"
        "    public T v;\n"
        "    public constructor(T v) -> Box<T> { this.v = v; return this; }\n"
        "    public function get() -> T { int c = F.churn(1); return this.v; }\n"
        "}\n"
        "static class F {\n"
        "    public static N keep = null;\n"
        "    public static int counter = 0;\n"
        "    public static function mk(int id) -> N { return new N(id); }\n"
        "    public static function churn(int n) -> int {\n"
        "        int acc = 0;\n"
        "        for (int i = 0; i < n; i = i + 1) {\n"
        "            N a = new N(900 + i);\n"
        "            N b = new N(800 + i);\n"
        "            a.next = b;\n"
        "            b.next = a;\n"
        "            acc = acc + 1;\n"
        "        }\n"
        "        return acc;\n"
        "    }\n"
        "    public static function churnD(int n) -> int { N t = new N(700 + n); destroy t; int z = 1; int y = 2; return z + y; }\n"
        "    public static function churnMk(int id) -> N { int c = F.churn(2); return new N(id + 100); }\n"
        "    public static function show(N o) -> string { if (o == null) { return \"null\"; } if (o.next == null) { return \"N\" + o.id; } return \"N\" + o.id + \">\" + o.next.id; }\n"
        "    public static function boom(int k) -> int { int[] xs = {1, 2}; return xs[k]; }\n"
        "}\n"
        "function mk(int id) -> N { return new N(id); }\n"
        "function pass(N o, int k) -> int { return o.id + k; }\n"
        "function pass2(int k, N o) -> int { return o.id + k; }\n"
        "function pick(N a, N b) -> N { return a; }\n"
        "function wrap1(int id, int k) -> N { N r = mk(id); int c = F.churn(k); return r; }\n"
        "function wrap2(int id, int k) -> N { return wrap1(id, k); }\n"
        "function retWhileDtor(int id, int k) -> N { N keep = mk(id); D d = new D(k); return keep; }\n";
    if (p.qcycle)
        s +=
            "class QP { public qubit q; public int id; public constructor(int id) -> QP { this.id = id; return this; } public destructor() -> void { echo(\"~QP \" + this.id); } }\n"
            "class QL { public QL next; public QP p; public constructor(int id) -> QL { this.next = null; this.p = new QP(id); return this; } }\n"
            "function qcyc(int id) -> void { QL a = new QL(id); QL b = new QL(id + 1); a.next = b; b.next = a; }\n"
            // a collection is requested after the last allocation, while the cycle is still reachable
            "function qcycD(int id) -> void { QL a = new QL(id); QL b = new QL(id + 1); a.next = b; b.next = a; N t = new N(id); destroy t; int pad = 0; }\n";
    if (p.edge) {
        s +=
            "class H0 { public int z; public constructor() -> H0 { this.z = 0; return this; } public virtual function lvl() -> int { return 0; } }\n"
            "class H1 extends H0 { public constructor() -> H1 { super(); return this; } public virtual override function lvl() -> int { return 1; } }\n"
            "class H2 extends H1 { public constructor() -> H2 { super(); return this; } }\n"
            "class H3 extends H2 { public constructor() -> H3 { super(); return this; } public virtual override function lvl() -> int { return 3; } }\n"
            "class H4 extends H3 { public constructor() -> H4 { super(); return this; } public virtual override function lvl() -> int { return 40 + super.lvl(); } }\n"
            "class H5 extends H4 { public constructor() -> H5 { super(); return this; } public override function lvl() -> int { return 5 + super.lvl(); } }\n"
            "class V {\n"
            "    public constructor() -> V = default;\n"
            "    public virtual function f(int a) -> string { return \"V.int\"; }\n"
            "    public virtual function f(float a) -> string { return \"V.float\"; }\n"
            "    public virtual function f(string a) -> string { return \"V.string\"; }\n"
            "    public virtual function f(int a, int b) -> string { return \"V.int2\"; }\n"
            "}\n"
            "class W extends V {\n"
            "    public constructor() -> W { super(); return this; }\n"
            "    public virtual override function f(float a) -> string { return \"W.float\"; }\n"
            "}\n"
            "class W2 extends V {\n"
            "    public constructor() -> W2 { super(); return this; }\n"
            "    public override function f(int a) -> string { return \"W2.int\"; }\n"
            "    public override function f(float a) -> string { return \"W2.float\"; }\n"
            "    public override function f(string a) -> string { return \"W2.string\"; }\n"
            "    public override function f(int a, int b) -> string { return \"W2.int2\"; }\n"
            "}\n"
            "class W3 extends W {\n"
            "    public constructor() -> W3 { super(); return this; }\n"
            "    public override function f(float a) -> string { return \"W3.float\"; }\n"
            "}\n"
            "class Bad {\n"
            "    public N held;\n"
            "    public constructor(int k) -> Bad { this.held = F.mk(55); int v = F.boom(k); return this; }\n"
            "    public destructor() -> void { echo(\"~Bad\"); }\n"
            "}\n"
            "class Registry<T> {\n"
            "    public static Registry<T> shared = new Registry<T>();\n"
            "    public int hits = 0;\n"
            "    public constructor() -> Registry<T> { }\n"
            "    public function touch() -> int { this.hits = this.hits + 1; return this.hits; }\n"
            "    public function viaShared() -> int { return shared.touch(); }\n"
            "}\n"
            "function rec(int n, int bad) -> int { D keep = new D(n % 3); if (n <= 0) { if (bad == 1) { return F.boom(5); } return 0; } int r = 1 + rec(n - 1, bad); return r + keep.k - keep.k; }\n"
            // declared most-derived first: layouts and dispatch tables must not depend on the order of declaration
            "class Ord3 extends Ord2 { public string s3 = \"c\"; public constructor() -> Ord3 { super(); return this; } public override function who() -> int { return 30 + super.who(); } }\n"
            "class Ord2 extends Ord1 { public N held = F.mk(77); public constructor() -> Ord2 { super(); return this; } public virtual override function who() -> int { return 20 + this.x; } }\n"
            "class Ord1 { public int x = 1; public int z = 3; public constructor() -> Ord1 { return this; } public virtual function who() -> int { return this.x; } public function g() -> int { return this.x + this.z; } }\n"
            "static class ZK { public static Zb held = null; public static int seen = 0; }\n"
            "class Zb { public int id; public N kept; public constructor(int id) -> Zb { this.id = id; this.kept = F.mk(id + 1); return this; } public destructor() -> void { ZK.held = this; ZK.seen = ZK.seen + 1; echo(\"~Zb \" + this.id); } public function who() -> int { return this.id; } }\n"
            "class OgD extends OgG<int> { public int d = 4; public constructor() -> OgD { super(); return this; } public function all() -> int { return this.a + this.a3 + this.g + this.d; } }\n"
            "class OgG<T> extends OgA { public int g = 2; public constructor() -> OgG<T> { super(); return this; } }\n"
            "class OgA { public int a = 1; public int a2 = 10; public int a3 = 20; public constructor() -> OgA { return this; } }\n"
            "class LN { public int v; public LN next; public constructor(int v, LN n) -> LN { this.v = v; this.next = n; return this; } }\n"
            "class LND { public int v; public LND next; public constructor(int v, LND n) -> LND { this.v = v; this.next = n; return this; } public destructor() -> void { ZK.seen = ZK.seen + 1; } }\n"
            "static class ZQ { public static QW kept = null; }\n"
            "class QH { public qubit target; public int id; public constructor(qubit t, int id) -> QH { this.target = t; this.id = id; return this; } public destructor() -> void { echo(\"~QH \" + this.id); } }\n"
            "class Shp { public constructor() -> Shp = default; public virtual function area() -> int { return 0; } }\n"
            "class Rct extends Shp { public int w; public int h; public constructor(int w, int h) -> Rct { super(); this.w = w; this.h = h; return this; } public override function area() -> int { return w * h; } }\n"
            "class Dt extends Shp { public constructor() -> Dt { super(); return this; } }\n"
            "class BadInit {\n"
            "    public N held = F.mk(56);\n"
            "    public int q = F.boom(3);\n"
            "    public constructor() -> BadInit { return this; }\n"
            "}\n";
        if (p.dtorErr)
            s +=
                "class BadDtor {\n"
                "    public constructor() -> BadDtor = default;\n"
                "    public destructor() -> void { int v = F.boom(7); echo(\"unreachable\"); }\n"
                "}\n"
                "class BadDtorN {\n"
                "    public int k = 1;\n"
                "    public constructor() -> BadDtorN = default;\n"
                "    public destructor() -> void { if (this.k > 0) { for (int i = 0; i < 2; i = i + 1) { int v = F.boom(7 + i); } } echo(\"unreachable\"); }\n"
                "}\n";
    }
    return s;
}

inline std::string var(int i) { return "v" + std::to_string(i); }

inline std::string renderStmt(const Plan& p, const Stmt& st, int index) {
    int id = (index + 1) * 10;  // unique id base per statement
    auto I = [&](int k) { return std::to_string(k); };
    int nv = p.nVars;
    std::string x = var(((st.a % nv) + nv) % nv), y = var(((st.b % nv) + nv) % nv);
    int k = 1 + ((st.c % 3) + 3) % 3;
    switch (st.tpl) {
        case T_ARG_BEFORE: return "    echo(pass(mk(" + I(id) + "), F.churn(" + I(k) + ")));\n";
        case T_ARG_AFTER: return "    echo(pass2(F.churnD(" + I(k) + "), mk(" + I(id) + ")));\n";
        case T_CTOR_ARG: return "    " + x + " = new N(" + I(id) + ", pick(mk(" + I(id + 1) + "), F.churnMk(" + I(id + 2) + ")));\n    echo(F.show(" + x + "));\n";
        case T_SUPER_ARG: return "    " + x + " = new M(" + I(id) + ");\n    echo(F.show(" + x + "));\n";
        case T_CHAIN: return "    " + x + " = mk(" + I(id) + ").link(F.churnMk(" + I(id + 1) + "));\n    echo(F.show(" + x + "));\n";
        case T_NESTED_RET: return "    " + x + " = wrap2(" + I(id) + ", " + I(k) + ");\n    echo(F.show(" + x + "));\n";
        case T_MEMBER_ASSIGN: return "    if (" + x + " != null) { " + x + ".next = pick(mk(" + I(id) + "), F.churnMk(" + I(id + 1) + ")); }\n    echo(F.show(" + x + "));\n";
        case T_EQ_OPERAND: return "    echo(mk(" + I(id) + ") == F.churnMk(" + I(id + 1) + "));\n";
        case T_CONCAT: return "    echo(\"s\" + mk(" + I(id) + ").id + F.churn(" + I(k) + "));\n";
        case T_STATIC_ASSIGN: return "    F.keep = pick(mk(" + I(id) + "), F.churnMk(" + I(id + 1) + "));\n    echo(F.show(F.keep));\n";
        case T_LOOP_ALLOC: return "    for (int i" + I(index) + " = 0; i" + I(index) + " < " + I(17 + k) + "; i" + I(index) + " = i" + I(index) + " + 1) { N t = new N(" + I(2000 + id) + " + i" + I(index) + "); }\n";
        case T_DESTROY: return "    destroy " + x + ";\n    echo(F.show(" + x + "));\n";
        case T_CYCLE_DROP:
            return "    " + x + " = mk(" + I(id) + "); " + y + " = mk(" + I(id + 1) + ");\n" + (x != y ? "    " + x + ".next = " + y + "; " + y + ".next = " + x + "; " + x + ".other = mk(" + I(id + 2) + ");\n" : "    " + x + ".next = " + x + ";\n") +
                   "    " + x + " = null; " + y + " = null;\n";
        case T_VIRTUAL: return "    if (" + x + " != null) { echo(" + x + ".tag()); }\n";
        case T_BOX: return "    Box<N> bx" + I(index) + " = new Box<N>(mk(" + I(id) + "));\n    echo(bx" + I(index) + ".get().id);\n";
        case T_RET_WHILE_DTOR: return "    " + x + " = retWhileDtor(" + I(id) + ", " + I(k) + ");\n    echo(F.show(" + x + "));\n";
        case T_CHURN: return "    echo(F.churn(" + I(k) + "));\n";
        case T_CHURN_D: return "    echo(F.churnD(" + I(k) + "));\n";
        case T_SELF_CYCLE_LIVE: return "    " + x + " = mk(" + I(id) + "); " + x + ".next = " + x + ";\n    echo(F.show(" + x + "));\n";
        case T_SHOW_ALL: {
            std::string s;
            for (int i = 0; i < nv; ++i) s += "    echo(F.show(" + var(i) + "));\n";
            s += "    echo(F.show(F.keep));\n";
            return s;
        }
        case T_STATIC_CYCLE: return "    F.keep = mk(" + I(id) + "); F.keep.next = mk(" + I(id + 1) + "); F.keep.next.next = F.keep;\n    echo(F.show(F.keep));\n";
        case T_DROP_VAR: return "    " + x + " = null;\n";
        case T_KEEP_CHAIN: return "    " + x + " = new N(" + I(id) + ", new N(" + I(id + 1) + ", " + y + "));\n    echo(F.show(" + x + "));\n";
        case T_DIAMOND_GENERIC: return "    Box<N> bd" + I(index) + " = new Box<>(mk(" + I(id) + "));\n    echo(bd" + I(index) + ".get().id);\n";
        case T_METHOD_CHURN: return "    echo(mk(" + I(id) + ").heavy(" + I(k) + "));\n";
        // ---- edge ----
        case T_E_DIV0: return "    int dz" + I(index) + " = " + I(st.a % 2) + ";\n    echo(7 / dz" + I(index) + ");\n";
        case T_E_MOD0: return "    int mz" + I(index) + " = " + I(st.a % 2) + ";\n    echo(7 % mz" + I(index) + ");\n";
        case T_E_LONGMIN_MOD:
            return "    long lm" + I(index) + " = -9223372036854775807L - 1L;\n    long ld" + I(index) + " = " + std::string(st.a % 2 ? "-1L" : "0L - 1L") + ";\n    echo(lm" + I(index) + " % ld" + I(index) + ");\n" +
                   "    int im" + I(index) + " = 0 - 2147483647 - 1;\n    echo(im" + I(index) + " % (0 - 1));\n";
        case T_E_INDEX: {
            static const int ks[] = {-1, 0, 1, 2, 99, -2147483647};
            return "    int[] xs" + I(index) + " = {1, 2};\n    int xi" + I(index) + " = 0 + " + (ks[st.a % 6] < 0 ? "(0 - " + I(-ks[st.a % 6]) + ")" : I(ks[st.a % 6])) + ";\n    echo(xs" + I(index) + "[xi" + I(index) + "]);\n";
        }
        case T_E_NULL_FIELD: return "    N nz" + I(index) + " = " + (st.a % 2 ? "null" : "mk(" + I(id) + ")") + ";\n    echo(nz" + I(index) + ".id);\n";
        case T_E_NULL_CALL: return "    N nc" + I(index) + " = " + (st.a % 2 ? "null" : "mk(" + I(id) + ")") + ";\n    echo(nc" + I(index) + ".tag());\n";
        case T_E_DEEP: return "    H0 h" + I(index) + " = new H5();\n    echo(h" + I(index) + ".lvl());\n    H3 h3" + I(index) + " = new H4();\n    echo(h3" + I(index) + ".lvl());\n";
        case T_E_VOVERLOAD: {
            const char* cls[] = {"V", "W", "W2", "W3"};
            std::string v = "vo" + I(index);
            return "    V " + v + " = new " + cls[st.a % 4] + "();\n    echo(" + v + ".f(1));\n    echo(" + v + ".f(2.5f));\n    echo(" + v + ".f(\"s\"));\n    echo(" + v + ".f(1, 2));\n";
        }
        case T_E_CTOR_ERR: return "    Bad bad" + I(index) + " = new Bad(" + I(st.a % 3) + ");\n    echo(\"bad ok\");\n";
        case T_E_FIELDINIT_ERR: return "    BadInit bi" + I(index) + " = new BadInit();\n    echo(\"unreachable\");\n";
        case T_E_INT_EXTREME:
            return "    int ie" + I(index) + " = 2147483647;\n    long le" + I(index) + " = 9223372036854775807L;\n    echo(ie" + I(index) + " - 1);\n    echo(le" + I(index) + " - 1L);\n    echo(ie" + I(index) + " / 3);\n    float fe" + I(index) + " = 1.5f;\n    echo(fe" + I(index) +
                   " * 2.0f);\n";
        case T_E_LITERAL_RANGE:
            if (st.a % 3 == 2) return "    int lh" + I(index) + " = 18446744073709551999;\n    echo(lh" + I(index) + ");\n";
            return st.a % 2 ? "    int lr" + I(index) + " = 99999999999;\n    echo(lr" + I(index) + ");\n" : "    float lf" + I(index) + " = 99999999999999999999999999999999999999999999.0f;\n    echo(lf" + I(index) + ");\n";
        case T_E_CAST: return "    long cl" + I(index) + " = 4294967296L + 7L;\n    echo((int) cl" + I(index) + ");\n    echo((bit) 2);\n    echo((float) 3);\n";
        case T_E_NEG_ARRAY: return "    final int an" + I(index) + " = " + I((st.a % 3)) + ";\n    int[an" + I(index) + "] arr" + I(index) + ";\n    echo(arr" + I(index) + ");\n";
        case T_E_DESTROY_TWICE: return "    N dt" + I(index) + " = mk(" + I(id) + ");\n    destroy dt" + I(index) + ";\n    destroy dt" + I(index) + ";\n    N dn" + I(index) + " = null;\n    destroy dn" + I(index) + ";\n";
        case T_E_SUPER_CALL: return "    M sm" + I(index) + " = new M(" + I(id) + ");\n    echo(sm" + I(index) + ".baseTag());\n    echo(sm" + I(index) + ".tag());\n";
        case T_QCYCLE: return std::string("    ") + (st.a % 2 ? "qcycD(" : "qcyc(") + I(id) + ");\n    echo(\"after qcyc\");\n";
        case T_E_DTOR_ERR: {
            std::string cls = st.a % 2 ? "BadDtorN" : "BadDtor";   // error at the top level of the destructor body / inside nested blocks
            // released by 'destroy' (which also requests a collection) or by plain reference counting (reassignment)
            std::string rel = st.b % 2 ? "    bdt" + I(index) + " = null;\n" : "    destroy bdt" + I(index) + ";\n";
            return "    " + cls + " bdt" + I(index) + " = new " + cls + "();\n" + rel + "    echo(\"after dtor err\");\n    echo(\"still running\");\n";
        }
        case T_DERIVED_LEAF: return "    " + x + " = new L(" + I(id) + ");\n    echo(F.churn(" + I(k) + "));\n    echo(F.show(" + x + "));\n";
        case T_E_DECL_ORDER: {
            std::string v = "od" + I(index);
            std::string cls = st.a % 3 == 0 ? "Ord3" : st.a % 3 == 1 ? "Ord2" : "Ord1";
            return "    Ord1 " + v + " = new " + cls + "();\n    echo(" + v + ".g());\n    echo(" + v + ".who());\n";
        }
        case T_E_RESURRECT: {
            std::string v = "zb" + I(index);
            return "    { Zb " + v + " = new Zb(" + I(id) + "); }\n    echo(ZK.seen);\n    echo(ZK.held == null);\n    echo(ZK.held.who());\n    echo(F.churn(" + I(k) + "));\n    ZK.held = null;\n";
        }
        case T_E_GENERIC_BASE_ORDER: return "    OgD og" + I(index) + " = new OgD();\n    echo(og" + I(index) + ".all());\n    echo(og" + I(index) + ".a2);\n";
        case T_E_LONG_CHAIN: {
            std::string v = "ln" + I(index);
            if (st.b % 2) return "    LND " + v + " = null;\n    for (int li" + I(index) + " = 0; li" + I(index) + " < " + I(12000 + 500 * (st.a % 5)) + "; li" + I(index) + " = li" + I(index) + " + 1) { " + v + " = new LND(li" + I(index) + ", " + v + "); }\n    echo(" + v + ".v);\n    " + v + " = null;\n    echo(ZK.seen);\n";
            return "    LN " + v + " = null;\n    for (int li" + I(index) + " = 0; li" + I(index) + " < " + I(9000 + 500 * (st.a % 5)) + "; li" + I(index) + " = li" + I(index) + " + 1) { " + v + " = new LN(li" + I(index) + ", " + v + "); }\n    echo(" + v + ".v);\n    " + v + " = null;\n    echo(\"chain dropped\");\n";
        }
        case T_QTEMP: return st.b % 2 ? "    echo(passQ(new QW(mk(" + I(id) + ")), F.churn(" + I(k) + ")));\n" : "    echo(passQ2(F.churnD(" + I(k) + "), new QW(mk(" + I(id) + "))));\n";
        case T_E_EMPTY_ARRAY: {
            std::string v = "ea" + I(index);
            if (st.a % 3 == 0) return "    final int en" + I(index) + " = 0;\n    int[en" + I(index) + "] " + v + ";\n    echo(" + v + ");\n    echo(" + v + "[0]);\n";
            if (st.a % 3 == 1) return "    int[0] " + v + ";\n    int ei" + I(index) + " = " + I(st.b % 3) + ";\n    echo(" + v + "[ei" + I(index) + "]);\n";
            return "    float[0] " + v + ";\n    " + v + "[0] = 1.5f;\n    echo(" + v + ");\n";
        }
        case T_E_SHARED_QUBIT: return "    { qubit sq" + I(index) + "; QH ha" + I(index) + " = new QH(sq" + I(index) + ", " + I(id) + "); QH hb" + I(index) + " = new QH(sq" + I(index) + ", " + I(id + 1) + "); echo(ha" + I(index) + ".id + hb" + I(index) + ".id); }\n    echo(\"owners gone\");\n";
        case T_E_SIBLING: return "    Shp sh" + I(index) + " = new Rct(2, " + I(2 + st.a % 3) + ");\n    echo(sh" + I(index) + ".area());\n    sh" + I(index) + " = new Dt();\n    echo(sh" + I(index) + ".area());\n";
        case T_E_STATIC_QOWNER: return "    ZQ.kept = new QW(mk(" + I(id) + "));\n    echo(ZQ.kept.held.id);\n";
        case T_E_RECURSE: return "    echo(rec(" + I(3 + (st.a % 12) * 4) + ", " + I(st.b % 3 == 0 ? 1 : 0) + "));\n";
        case T_E_GENERIC_STATIC: {
            std::string ty = st.a % 2 ? "string" : "int";
            return "    Registry<" + ty + "> rg" + I(index) + " = new Registry<" + ty + ">();\n    echo(rg" + I(index) + ".touch());\n    echo(rg" + I(index) + ".viaShared());\n";
        }
    }
    return "";
}

inline std::string render(const Plan& p) {
    if (p.speculative >= 0) return speculativeSource(p.speculative);
    std::string s = preamble(p);
    s += "function main() -> void {\n";
    for (int i = 0; i < p.nVars; ++i) s += "    N " + var(i) + " = null;\n";
    for (size_t i = 0; i < p.main.size(); ++i) s += renderStmt(p, p.main[i], (int)i);
    s += "    echo(\"end\");\n";
    for (int i = 0; i < p.nVars; ++i) s += "    echo(F.show(" + var(i) + "));\n";
    s += "}\n";
    return s;
}

inline sim::Json toJson(const Plan& p) {
    sim::Json j = sim::Json::object();
    sim::Json m = sim::Json::array();
    for (auto& st : p.main) m.push(sim::Json::object().set("tpl", tplName(st.tpl)).set("t", st.tpl).set("a", st.a).set("b", st.b).set("c", st.c));
    j.set("main", m).set("nVars", p.nVars).set("edge", p.edge).set("dtorErr", p.dtorErr).set("qcycle", p.qcycle).set("speculative", p.speculative);
    return j;
}
inline Plan fromJson(const sim::Json& j) {
    Plan p;
    p.nVars = (int)j.at("nVars").asInt(3);
    p.edge = j.at("edge").asBool();
    p.dtorErr = j.at("dtorErr").asBool();
    p.qcycle = j.at("qcycle").asBool();
    p.speculative = (int)j.at("speculative").asInt(-1);
    for (auto& e : j.at("main").a) p.main.push_back({(int)e.at("t").asInt(), (int)e.at("a").asInt(), (int)e.at("b").asInt(), (int)e.at("c").asInt()});
    return p;
}

// Generation. `edgeShare` in [0,1]: share of edge templates (C12); errors end the program early, so at
// most one erroring template is placed and it is placed late.
inline Plan generate(sim::Rng& g, bool edge, bool allowDtorErr, bool allowQcycle = false) {
    Plan p;
    p.qcycle = allowQcycle;
    p.nVars = g.range(2, 4);
    p.edge = edge;
    p.dtorErr = allowDtorErr;
    int n = g.range(1, 9);
    static const int gcTpls[] = {T_ARG_BEFORE, T_ARG_AFTER, T_CTOR_ARG, T_SUPER_ARG, T_CHAIN, T_NESTED_RET, T_MEMBER_ASSIGN, T_EQ_OPERAND, T_CONCAT, T_STATIC_ASSIGN,
                                 T_LOOP_ALLOC, T_DESTROY, T_CYCLE_DROP, T_VIRTUAL, T_BOX, T_RET_WHILE_DTOR, T_CHURN, T_CHURN_D, T_SELF_CYCLE_LIVE, T_SHOW_ALL,
                                 T_STATIC_CYCLE, T_DROP_VAR, T_KEEP_CHAIN, T_DIAMOND_GENERIC, T_METHOD_CHURN, T_DERIVED_LEAF, T_QTEMP};
    static const int edgeTpls[] = {T_E_DIV0, T_E_MOD0, T_E_LONGMIN_MOD, T_E_INDEX, T_E_NULL_FIELD, T_E_NULL_CALL, T_E_DEEP, T_E_VOVERLOAD, T_E_CTOR_ERR, T_E_FIELDINIT_ERR,
                                   T_E_INT_EXTREME, T_E_LITERAL_RANGE, T_E_CAST, T_E_NEG_ARRAY, T_E_DESTROY_TWICE, T_E_SUPER_CALL, T_E_GENERIC_STATIC, T_E_RECURSE, T_E_DECL_ORDER, T_E_RESURRECT, T_E_GENERIC_BASE_ORDER, T_E_EMPTY_ARRAY, T_E_SHARED_QUBIT, T_E_SIBLING, T_E_STATIC_QOWNER};
    double edgeShare = edge ? 0.35 : 0.0;
    for (int i = 0; i < n; ++i) {
        Stmt st;
        if (edge && g.chance(edgeShare)) st.tpl = edgeTpls[g.below(sizeof edgeTpls / sizeof *edgeTpls)];
        else st.tpl = gcTpls[g.below(sizeof gcTpls / sizeof *gcTpls)];
        st.a = (int)g.below(12);
        st.b = (int)g.below(12);
        st.c = (int)g.below(12);
        p.main.push_back(st);
    }
    if (allowQcycle) {
        int k = 1 + (int)g.below(2);
        for (int i = 0; i < k; ++i) {
            Stmt st;
            st.tpl = T_QCYCLE;
            st.a = (int)g.below(12);
            // at the very end of main in part of the programs: nothing is allocated after the cycle has been dropped
            if (g.chance(0.4)) p.main.push_back(st);
            else p.main.insert(p.main.begin() + (long)g.below(p.main.size() + 1), st);
        }
    }
    if (edge && g.chance(0.0012)) {
        Stmt st;
        st.tpl = T_E_LONG_CHAIN;
        st.a = (int)g.below(12);
        st.b = (int)g.below(12);
        p.main.insert(p.main.begin() + (long)g.below(p.main.size() + 1), st);
    }
    if (allowDtorErr && g.chance(0.5)) {
        Stmt st;
        st.tpl = T_E_DTOR_ERR;
        p.main.insert(p.main.begin() + (long)g.below(p.main.size() + 1), st);
    }
    return p;
}

}  // namespace classprog
