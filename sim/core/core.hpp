// Core of the deterministic simulator: PRNG streams, JSON, hashing, the worker pool,
// violation gate (determinism + fresh-process replay), known-findings and evidence writer.
// Header-only; every engine is one translation unit that includes this file.
//
// NOTE: engines that link with -Wl,--wrap of std::chrono clocks / condition variables must not
// use those facilities here, so this file uses clock_gettime, pipes and poll only.
#pragma once

#include <fcntl.h>
#include <poll.h>
#include <signal.h>
#include <sys/stat.h>
#include <sys/types.h>
#include <sys/personality.h>
#include <sys/wait.h>
#include <time.h>
#include <unistd.h>

#include <algorithm>
#include <cerrno>
#include <cinttypes>
#include <cmath>
#include <cstdint>
#include <cstdio>
#include <cstdlib>
#include <cstring>
#include <functional>
#include <map>
#include <memory>
#include <set>
#include <string>
#include <unordered_set>
#include <utility>
#include <vector>

namespace sim {

// ----------------------------------------------------------------------------------------------
// wall clock: only for stopping a batch and filling wall_s, never for a decision inside a run
inline double wallNow() {
    struct timespec ts;
    clock_gettime(CLOCK_MONOTONIC, &ts);
    return ts.tv_sec + ts.tv_nsec * 1e-9;
}

// ----------------------------------------------------------------------------------------------
// PRNG
inline uint64_t splitmix64(uint64_t& x) {
    uint64_t z = (x += 0x9E3779B97F4A7C15ull);
    z = (z ^ (z >> 30)) * 0xBF58476D1CE4E5B9ull;
    z = (z ^ (z >> 27)) * 0x94D049BB133111EBull;
    return z ^ (z >> 31);
}
inline uint64_t fnv1a(const char* s, size_t n, uint64_t h = 0xcbf29ce484222325ull) {
    for (size_t i = 0; i < n; ++i) {
        h ^= (unsigned char)s[i];
        h *= 0x100000001b3ull;
    }
    return h;
}
inline uint64_t fnv1a(const std::string& s, uint64_t h = 0xcbf29ce484222325ull) {
    return fnv1a(s.data(), s.size(), h);
}

struct Rng {
    uint64_t s[4];
    Rng() : Rng(1, "default", 0) {}
    // independent stream per (seed, name, run)
    Rng(uint64_t seed, const char* name, uint64_t run) {
        uint64_t x = seed * 0xD1342543DE82EF95ull ^ fnv1a(name, strlen(name)) ^ (run * 0x9E3779B97F4A7C15ull + 0x632BE59BD9B4E019ull);
        for (auto& v : s) v = splitmix64(x);
    }
    static uint64_t rotl(uint64_t x, int k) { return (x << k) | (x >> (64 - k)); }
    uint64_t next() {
        uint64_t r = rotl(s[1] * 5, 7) * 9, t = s[1] << 17;
        s[2] ^= s[0];
        s[3] ^= s[1];
        s[1] ^= s[2];
        s[0] ^= s[3];
        s[2] ^= t;
        s[3] = rotl(s[3], 45);
        return r;
    }
    uint64_t below(uint64_t n) { return n ? next() % n : 0; }  // slight modulo bias is irrelevant here
    int range(int lo, int hi) { return lo + (int)below((uint64_t)(hi - lo + 1)); }  // inclusive
    double unit() { return (next() >> 11) * (1.0 / 9007199254740992.0); }
    bool chance(double p) { return unit() < p; }
    template <class T>
    const T& pick(const std::vector<T>& v) { return v[below(v.size())]; }
};

// ----------------------------------------------------------------------------------------------
// rolling 64-bit hash for event logs
struct Hash {
    uint64_t h = 0x243F6A8885A308D3ull;
    void add(uint64_t v) {
        h ^= v + 0x9E3779B97F4A7C15ull + (h << 6) + (h >> 2);
        h *= 0xFF51AFD7ED558CCDull;
        h ^= h >> 33;
    }
    void addStr(const std::string& s) { add(fnv1a(s)); }
    void addDouble(double d, double quantum = 1e-9) { add((uint64_t)(int64_t)std::llround(d / quantum)); }
};

// ----------------------------------------------------------------------------------------------
// JSON (small, sufficient for plans/evidence)
struct Json {
    enum T { Null, Bool, Num, Str, Arr, Obj } t = Null;
    bool b = false;
    double n = 0;
    bool isInt = false;
    int64_t i = 0;
    std::string s;
    std::vector<Json> a;
    std::vector<std::pair<std::string, Json>> o;

    Json() = default;
    Json(bool v) : t(Bool), b(v) {}
    Json(int v) : t(Num), n(v), isInt(true), i(v) {}
    Json(long v) : t(Num), n((double)v), isInt(true), i(v) {}
    Json(long long v) : t(Num), n((double)v), isInt(true), i(v) {}
    Json(unsigned v) : t(Num), n(v), isInt(true), i(v) {}
    Json(unsigned long v) : t(Num), n((double)v), isInt(true), i((int64_t)v) {}
    Json(unsigned long long v) : t(Num), n((double)v), isInt(true), i((int64_t)v) {}
    Json(double v) : t(Num), n(v) {}
    Json(const char* v) : t(Str), s(v) {}
    Json(const std::string& v) : t(Str), s(v) {}
    static Json array() { Json j; j.t = Arr; return j; }
    static Json object() { Json j; j.t = Obj; return j; }
    template <class V>
    static Json arrayOf(const std::vector<V>& v) {
        Json j = array();
        for (auto& e : v) j.a.push_back(Json(e));
        return j;
    }
    Json& set(const std::string& k, Json v) {
        if (t != Obj) { t = Obj; }
        for (auto& kv : o)
            if (kv.first == k) { kv.second = std::move(v); return *this; }
        o.emplace_back(k, std::move(v));
        return *this;
    }
    Json& push(Json v) {
        if (t != Arr) t = Arr;
        a.push_back(std::move(v));
        return *this;
    }
    const Json* find(const std::string& k) const {
        for (auto& kv : o)
            if (kv.first == k) return &kv.second;
        return nullptr;
    }
    const Json& at(const std::string& k) const {
        static Json nul;
        auto* p = find(k);
        return p ? *p : nul;
    }
    bool has(const std::string& k) const { return find(k) != nullptr; }
    int64_t asInt(int64_t d = 0) const { return t == Num ? (isInt ? i : (int64_t)n) : (t == Bool ? b : d); }
    uint64_t asU64(uint64_t d = 0) const { return t == Num ? (isInt ? (uint64_t)i : (uint64_t)n) : (t == Str ? strtoull(s.c_str(), nullptr, 0) : d); }
    double asNum(double d = 0) const { return t == Num ? (isInt ? (double)i : n) : d; }
    bool asBool(bool d = false) const { return t == Bool ? b : (t == Num ? asInt() != 0 : d); }
    const std::string& asStr() const { static std::string e; return t == Str ? s : e; }

    static void esc(const std::string& in, std::string& out) {
        out.push_back('"');
        for (unsigned char c : in) {
            switch (c) {
                case '"': out += "\\\""; break;
                case '\\': out += "\\\\"; break;
                case '\n': out += "\\n"; break;
                case '\r': out += "\\r"; break;
                case '\t': out += "\\t"; break;
                default:
                    if (c < 0x20 || c >= 0x7f) {
                        char buf[8];
                        snprintf(buf, sizeof buf, "\\u%04x", c);
                        out += buf;
                    } else
                        out.push_back((char)c);
            }
        }
        out.push_back('"');
    }
    void dumpTo(std::string& out, int indent = -1, int depth = 0) const {
        auto nl = [&](int d) {
            if (indent < 0) return;
            out.push_back('\n');
            out.append((size_t)(d * indent), ' ');
        };
        switch (t) {
            case Null: out += "null"; break;
            case Bool: out += b ? "true" : "false"; break;
            case Num: {
                char buf[40];
                if (isInt)
                    snprintf(buf, sizeof buf, "%" PRId64, i);
                else if (!std::isfinite(n))
                    snprintf(buf, sizeof buf, "null");
                else
                    snprintf(buf, sizeof buf, "%.17g", n);
                out += buf;
                break;
            }
            case Str: esc(s, out); break;
            case Arr:
                out.push_back('[');
                for (size_t k = 0; k < a.size(); ++k) {
                    if (k) out.push_back(',');
                    if (indent >= 0 && (a[k].t == Obj || a[k].t == Arr)) nl(depth + 1);
                    a[k].dumpTo(out, indent, depth + 1);
                }
                out.push_back(']');
                break;
            case Obj:
                out.push_back('{');
                for (size_t k = 0; k < o.size(); ++k) {
                    if (k) out.push_back(',');
                    nl(depth + 1);
                    esc(o[k].first, out);
                    out += indent >= 0 ? ": " : ":";
                    o[k].second.dumpTo(out, indent, depth + 1);
                }
                if (!o.empty()) nl(depth);
                out.push_back('}');
                break;
        }
    }
    std::string dump(int indent = -1) const {
        std::string out;
        dumpTo(out, indent);
        return out;
    }

    // parser
    struct P {
        const char* p;
        const char* e;
        bool ok = true;
        void ws() { while (p < e && (*p == ' ' || *p == '\n' || *p == '\t' || *p == '\r')) ++p; }
        Json val() {
            ws();
            Json j;
            if (p >= e) { ok = false; return j; }
            char c = *p;
            if (c == '{') {
                ++p; j.t = Obj; ws();
                if (p < e && *p == '}') { ++p; return j; }
                while (ok) {
                    ws();
                    Json k = val();
                    if (k.t != Str) { ok = false; break; }
                    ws();
                    if (p >= e || *p != ':') { ok = false; break; }
                    ++p;
                    Json v = val();
                    j.o.emplace_back(k.s, std::move(v));
                    ws();
                    if (p < e && *p == ',') { ++p; continue; }
                    if (p < e && *p == '}') { ++p; break; }
                    ok = false;
                }
            } else if (c == '[') {
                ++p; j.t = Arr; ws();
                if (p < e && *p == ']') { ++p; return j; }
                while (ok) {
                    j.a.push_back(val());
                    ws();
                    if (p < e && *p == ',') { ++p; continue; }
                    if (p < e && *p == ']') { ++p; break; }
                    ok = false;
                }
            } else if (c == '"') {
                ++p; j.t = Str;
                while (p < e && *p != '"') {
                    if (*p == '\\' && p + 1 < e) {
                        ++p;
                        switch (*p) {
                            case 'n': j.s.push_back('\n'); break;
                            case 't': j.s.push_back('\t'); break;
                            case 'r': j.s.push_back('\r'); break;
                            case 'b': j.s.push_back('\b'); break;
                            case 'f': j.s.push_back('\f'); break;
                            case 'u': {
                                if (p + 4 < e) {
                                    unsigned v = (unsigned)strtoul(std::string(p + 1, p + 5).c_str(), nullptr, 16);
                                    j.s.push_back((char)(v & 0xff));  // we only ever emit \u00XX
                                    p += 4;
                                }
                                break;
                            }
                            default: j.s.push_back(*p);
                        }
                        ++p;
                    } else
                        j.s.push_back(*p++);
                }
                if (p < e) ++p; else ok = false;
            } else if (c == 't' && e - p >= 4 && !strncmp(p, "true", 4)) { p += 4; j = Json(true); }
            else if (c == 'f' && e - p >= 5 && !strncmp(p, "false", 5)) { p += 5; j = Json(false); }
            else if (c == 'n' && e - p >= 4 && !strncmp(p, "null", 4)) { p += 4; }
            else {
                const char* st = p;
                bool isF = false;
                if (p < e && (*p == '-' || *p == '+')) ++p;
                while (p < e && (isdigit((unsigned char)*p) || *p == '.' || *p == 'e' || *p == 'E' || *p == '-' || *p == '+')) {
                    if (*p == '.' || *p == 'e' || *p == 'E') isF = true;
                    ++p;
                }
                if (p == st) { ok = false; return j; }
                std::string txt(st, p);
                j.t = Num;
                if (isF) { j.n = strtod(txt.c_str(), nullptr); }
                else { j.isInt = true; j.i = strtoll(txt.c_str(), nullptr, 10); j.n = (double)j.i; }
            }
            return j;
        }
    };
    static bool parse(const std::string& text, Json& out) {
        P p{text.data(), text.data() + text.size()};
        out = p.val();
        p.ws();
        return p.ok;
    }
};

inline bool readFile(const std::string& path, std::string& out) {
    FILE* f = fopen(path.c_str(), "rb");
    if (!f) return false;
    out.clear();
    char buf[65536];
    size_t n;
    while ((n = fread(buf, 1, sizeof buf, f)) > 0) out.append(buf, n);
    fclose(f);
    return true;
}
inline bool writeFile(const std::string& path, const std::string& data) {
    std::string tmp = path + ".tmp." + std::to_string(getpid());
    FILE* f = fopen(tmp.c_str(), "wb");
    if (!f) return false;
    bool ok = fwrite(data.data(), 1, data.size(), f) == data.size();
    ok = (fclose(f) == 0) && ok;
    if (ok) ok = rename(tmp.c_str(), path.c_str()) == 0;
    return ok;
}
inline void mkdirs(const std::string& path) {
    std::string cur;
    for (size_t k = 0; k <= path.size(); ++k) {
        if (k == path.size() || path[k] == '/') {
            if (!cur.empty()) mkdir(cur.c_str(), 0755);
        }
        if (k < path.size()) cur.push_back(path[k]);
    }
}
inline std::string hex64(uint64_t v) {
    char b[20];
    snprintf(b, sizeof b, "%016" PRIx64, v);
    return b;
}

// ----------------------------------------------------------------------------------------------
// Options common to all engines
struct Options {
    std::string property;           // Cxx
    std::string tier = "quick";     // quick|thorough
    uint64_t seed = 1;
    long runs = -1;                 // override
    int workers = -1;
    std::string replay;             // --replay file
    std::string evidenceDir = "/verif/evidence";
    std::string replayDir = "/verif/replays";
    std::string knownFile = "/verif/known_findings.json";
    std::string flavour = "plain";  // informational (plain|asan|tsan)
    std::string mode;               // engine-specific sub-mode
    bool selftestDeterminism = false;
    bool noEvidence = false;        // sub-slices write a fragment instead
    std::string fragment;           // path of fragment file to write (JSON), used by multi-flavour checks
    double wallCap = 0;             // seconds; 0 = tier default
    std::vector<std::string> extra;
    std::string self;               // argv[0]
    bool verbose = false;
};

inline Options parseOptions(int argc, char** argv) {
    Options o;
    o.self = argv[0];
    if (const char* s = getenv("VERIF_SEED")) o.seed = strtoull(s, nullptr, 0);
    if (const char* s = getenv("VERIF_TIER")) { if (*s) o.tier = s; }
    if (const char* s = getenv("VERIF_WORKERS")) o.workers = atoi(s);
    for (int k = 1; k < argc; ++k) {
        std::string a = argv[k];
        auto need = [&](const char*) -> std::string { return k + 1 < argc ? argv[++k] : ""; };
        if (a == "--property") o.property = need("");
        else if (a == "--tier") o.tier = need("");
        else if (a == "--seed") o.seed = strtoull(need("").c_str(), nullptr, 0);
        else if (a == "--runs") o.runs = atol(need("").c_str());
        else if (a == "--workers") o.workers = atoi(need("").c_str());
        else if (a == "--replay") o.replay = need("");
        else if (a == "--evidence-dir") o.evidenceDir = need("");
        else if (a == "--replay-dir") o.replayDir = need("");
        else if (a == "--known") o.knownFile = need("");
        else if (a == "--flavour") o.flavour = need("");
        else if (a == "--mode") o.mode = need("");
        else if (a == "--fragment") { o.fragment = need(""); o.noEvidence = true; }
        else if (a == "--wall-cap") o.wallCap = atof(need("").c_str());
        else if (a == "--selftest-determinism") o.selftestDeterminism = true;
        else if (a == "-v") o.verbose = true;
        else o.extra.push_back(a);
    }
    if (o.workers <= 0) {
        long n = sysconf(_SC_NPROCESSORS_ONLN);
        o.workers = (int)std::min<long>(16, std::max<long>(1, n));
    }
    return o;
}

// ----------------------------------------------------------------------------------------------
// Per-run report produced inside a worker
struct Violation {
    std::string cls;        // violation class (what the oracle saw)
    std::string signature;  // stable signature used for known-finding matching
    std::string detail;     // human readable
    Json plan;              // minimised plan (replay file body)
    bool reproducible = true;  // passed the in-worker same-plan-twice gate
};
struct RunReport {
    uint64_t sig = 0;          // event-log signature of this run
    bool nontrivial = false;   // counted for distinct_nontrivial
    std::map<std::string, uint64_t> counters;
    std::vector<Violation> violations;
    std::string sample;        // optional JSON text of the plan, kept for the first few runs
    double simTime = 0;        // simulated seconds covered
    void count(const std::string& k, uint64_t n = 1) { counters[k] += n; }
};

using RunFn = std::function<void(uint64_t run, RunReport& rep)>;

struct CrashInfo {
    uint64_t run;
    int status;           // wait status
    std::string stderrTail;
};

struct BatchResult {
    uint64_t runs = 0;
    std::map<std::string, uint64_t> counters;
    std::unordered_set<uint64_t> distinct;      // signatures of nontrivial runs
    uint64_t nontrivialRuns = 0;
    std::vector<std::pair<uint64_t, Violation>> violations;
    std::vector<CrashInfo> crashes;
    std::vector<std::string> samples;
    double simTime = 0;
    double wall = 0;
    uint64_t hashOfAll = 0;  // xor/sum of (run,sig) for determinism self test
    bool wallCapped = false;
};

namespace detail {
inline void writeAll(int fd, const std::string& s) {
    size_t off = 0;
    while (off < s.size()) {
        ssize_t w = ::write(fd, s.data() + off, s.size() - off);
        if (w < 0) {
            if (errno == EINTR) continue;
            _exit(3);
        }
        off += (size_t)w;
    }
}
inline std::string tailOf(const std::string& path, size_t maxBytes = 60000) {
    std::string all;
    if (!readFile(path, all)) return "";
    if (all.size() > maxBytes) all = all.substr(all.size() - maxBytes);
    return all;
}
}  // namespace detail

// Runs run indices [0, nRuns) on W forked workers. Worker w executes w, w+W, ... ; a run's behaviour
// depends on its index only, so results do not depend on W. A worker that dies is an observation
// (CrashInfo for the run it had started) and is restarted at its next index.
inline BatchResult runBatch(const Options& opt, uint64_t nRuns, const RunFn& fn, double wallCap,
                            size_t keepSamples = 3, std::function<void()> workerInit = nullptr) {
    BatchResult R;
    double t0 = wallNow();
    int W = (int)std::min<uint64_t>((uint64_t)opt.workers, std::max<uint64_t>(1, nRuns));
    struct Wk {
        pid_t pid = -1;
        int fd = -1;
        std::string buf;
        uint64_t nextRun = 0;     // next index to start if restarted
        int64_t started = -1;     // run currently in flight
        std::string errPath;
        bool done = false;
    };
    std::vector<Wk> ws((size_t)W);
    std::string errDir = std::string(getenv("TMPDIR") ? getenv("TMPDIR") : "/tmp") + "/blochsim." + std::to_string(getpid());
    mkdirs(errDir);
    double deadline = wallCap > 0 ? t0 + wallCap : 0;

    auto spawn = [&](int w) {
        Wk& k = ws[(size_t)w];
        int pfd[2];
        if (pipe(pfd) != 0) { perror("pipe"); exit(2); }
        k.errPath = errDir + "/w" + std::to_string(w) + ".err";
        fflush(stdout);
        fflush(stderr);
        pid_t pid = fork();
        if (pid < 0) { perror("fork"); exit(2); }
        if (pid == 0) {
            close(pfd[0]);
            for (auto& o : ws) if (o.fd >= 0) close(o.fd);
            int efd = getenv("VERIF_DEBUG_STDERR") ? -1 : open(k.errPath.c_str(), O_WRONLY | O_CREAT | O_TRUNC, 0644);
            if (efd >= 0) { dup2(efd, 2); close(efd); }
            if (workerInit) workerInit();
            int out = pfd[1];
            std::map<std::string, uint64_t> acc;
            std::string sigs;
            double simT = 0;
            uint64_t nAcc = 0;
            auto flush = [&]() {
                if (!nAcc) return;
                Json j = Json::object();
                Json c = Json::object();
                for (auto& kv : acc) c.set(kv.first, Json((unsigned long long)kv.second));
                j.set("c", c).set("s", sigs).set("t", simT).set("n", Json((unsigned long long)nAcc));
                detail::writeAll(out, "B " + j.dump() + "\n");
                acc.clear(); sigs.clear(); simT = 0; nAcc = 0;
            };
            double lastFlush = wallNow();
            for (uint64_t run = k.nextRun; run < nRuns; run += (uint64_t)W) {
                if (deadline > 0 && wallNow() > deadline) { flush(); detail::writeAll(out, "C\n"); break; }
                detail::writeAll(out, "S " + std::to_string(run) + "\n");
                RunReport rep;
                alarm(300);   // watchdog (real time, used for nothing else): a run that does not end kills its worker with SIGALRM
                fn(run, rep);
                alarm(0);
                for (auto& kv : rep.counters) acc[kv.first] += kv.second;
                simT += rep.simTime;
                ++nAcc;
                sigs += (rep.nontrivial ? "+" : "-") + hex64(rep.sig);
                for (auto& v : rep.violations) {
                    Json j = Json::object();
                    j.set("run", Json((unsigned long long)run)).set("cls", v.cls).set("sig", v.signature).set("detail", v.detail).set("plan", v.plan).set("repro", v.reproducible);
                    detail::writeAll(out, "V " + j.dump() + "\n");
                }
                if (!rep.sample.empty() && run < (uint64_t)W * 2) detail::writeAll(out, "P " + rep.sample + "\n");
                detail::writeAll(out, "E " + std::to_string(run) + "\n");
                if (nAcc >= 64 || wallNow() - lastFlush > 0.25) { flush(); lastFlush = wallNow(); }
            }
            flush();
            detail::writeAll(out, "D\n");
            close(out);
            fflush(nullptr);
            _exit(0);
        }
        close(pfd[1]);
        k.pid = pid;
        k.fd = pfd[0];
        k.buf.clear();
        k.started = -1;
    };
    for (int w = 0; w < W; ++w) { ws[(size_t)w].nextRun = (uint64_t)w; spawn(w); }

    auto handleLine = [&](Wk& k, const std::string& line) {
        if (line.empty()) return;
        char tag = line[0];
        std::string rest = line.size() > 2 ? line.substr(2) : "";
        if (tag == 'S') { k.started = (int64_t)strtoull(rest.c_str(), nullptr, 10); }
        else if (tag == 'E') {
            uint64_t r = strtoull(rest.c_str(), nullptr, 10);
            k.started = -1;
            k.nextRun = r + (uint64_t)W;
            R.runs++;
        } else if (tag == 'B') {
            Json j;
            if (Json::parse(rest, j)) {
                for (auto& kv : j.at("c").o) R.counters[kv.first] += kv.second.asU64();
                R.simTime += j.at("t").asNum();
                const std::string& s = j.at("s").asStr();
                for (size_t p = 0; p + 17 <= s.size(); p += 17) {
                    uint64_t v = strtoull(s.substr(p + 1, 16).c_str(), nullptr, 16);
                    R.hashOfAll += v * 0x9E3779B97F4A7C15ull + 1;
                    if (s[p] == '+') { R.nontrivialRuns++; R.distinct.insert(v); }
                }
            }
        } else if (tag == 'V') {
            Json j;
            if (Json::parse(rest, j)) {
                Violation v;
                v.cls = j.at("cls").asStr();
                v.signature = j.at("sig").asStr();
                v.detail = j.at("detail").asStr();
                v.plan = j.at("plan");
                v.reproducible = j.at("repro").asBool(true);
                R.violations.emplace_back(j.at("run").asU64(), std::move(v));
            }
        } else if (tag == 'P') {
            if (R.samples.size() < keepSamples) R.samples.push_back(rest);
        } else if (tag == 'D') { k.done = true; }
        else if (tag == 'C') { k.done = true; R.wallCapped = true; }
    };

    int live = W;
    while (live > 0) {
        std::vector<pollfd> pf;
        std::vector<int> idx;
        for (int w = 0; w < W; ++w)
            if (ws[(size_t)w].fd >= 0) { pf.push_back({ws[(size_t)w].fd, POLLIN, 0}); idx.push_back(w); }
        if (pf.empty()) break;
        int pr = poll(pf.data(), (nfds_t)pf.size(), 1000);
        if (pr < 0) { if (errno == EINTR) continue; perror("poll"); exit(2); }
        for (size_t q = 0; q < pf.size(); ++q) {
            if (!(pf[q].revents & (POLLIN | POLLHUP | POLLERR))) continue;
            Wk& k = ws[(size_t)idx[q]];
            char buf[65536];
            ssize_t n = read(k.fd, buf, sizeof buf);
            if (n > 0) {
                k.buf.append(buf, (size_t)n);
                size_t pos;
                while ((pos = k.buf.find('\n')) != std::string::npos) {
                    handleLine(k, k.buf.substr(0, pos));
                    k.buf.erase(0, pos + 1);
                }
            } else if (n == 0 || (n < 0 && errno != EINTR && errno != EAGAIN)) {
                close(k.fd);
                k.fd = -1;
                int st = 0;
                waitpid(k.pid, &st, 0);
                bool clean = WIFEXITED(st) && WEXITSTATUS(st) == 0 && k.done;
                if (!clean) {
                    if (k.started >= 0) {
                        CrashInfo ci;
                        ci.run = (uint64_t)k.started;
                        ci.status = st;
                        ci.stderrTail = detail::tailOf(k.errPath);
                        R.crashes.push_back(ci);
                        R.runs++;
                        k.nextRun = (uint64_t)k.started + (uint64_t)W;
                    } else if (!k.done) {
                        // died between runs: report as harness problem on nextRun
                        CrashInfo ci;
                        ci.run = k.nextRun;
                        ci.status = st;
                        ci.stderrTail = "(worker died outside a run)\n" + detail::tailOf(k.errPath);
                        R.crashes.push_back(ci);
                        k.nextRun += (uint64_t)W;
                    }
                    bool capped = deadline > 0 && wallNow() > deadline;
                    if (k.nextRun < nRuns && !capped && R.crashes.size() < 60) {
                        k.done = false;
                        spawn(idx[q]);
                        continue;
                    }
                }
                --live;
            }
        }
    }
    for (auto& k : ws) if (!k.errPath.empty()) unlink(k.errPath.c_str());
    rmdir(errDir.c_str());
    std::sort(R.violations.begin(), R.violations.end(), [](auto& a, auto& b) { return a.first < b.first; });
    std::sort(R.crashes.begin(), R.crashes.end(), [](auto& a, auto& b) { return a.run < b.run; });
    R.wall = wallNow() - t0;
    return R;
}

// Run a function in a forked child; returns wait status and stderr tail. Used to execute plans that
// may crash the process (sanitizer reports, signals) while shrinking or replaying.
struct ChildResult {
    int status = 0;
    std::string out;     // what the child wrote to the result pipe
    std::string err;     // stderr tail
    bool exitedOk() const { return WIFEXITED(status) && WEXITSTATUS(status) == 0; }
    bool crashed() const { return WIFSIGNALED(status) || (WIFEXITED(status) && WEXITSTATUS(status) != 0 && WEXITSTATUS(status) != 1); }
    std::string describe() const {
        char b[64];
        if (WIFSIGNALED(status)) snprintf(b, sizeof b, "signal %d", WTERMSIG(status));
        else snprintf(b, sizeof b, "exit %d", WEXITSTATUS(status));
        return b;
    }
};
inline ChildResult runInChild(const std::function<std::string()>& fn, double timeoutSec = 60) {
    ChildResult r;
    int pfd[2];
    if (pipe(pfd) != 0) { perror("pipe"); exit(2); }
    std::string errPath = std::string(getenv("TMPDIR") ? getenv("TMPDIR") : "/tmp") + "/blochsim.child." + std::to_string(getpid()) + ".err";
    fflush(stdout); fflush(stderr);
    pid_t pid = fork();
    if (pid == 0) {
        close(pfd[0]);
        int efd = open(errPath.c_str(), O_WRONLY | O_CREAT | O_TRUNC, 0644);
        if (efd >= 0) { dup2(efd, 2); close(efd); }
        std::string s = fn();
        detail::writeAll(pfd[1], s);
        close(pfd[1]);
        fflush(nullptr);
        _exit(0);
    }
    close(pfd[1]);
    double t0 = wallNow();
    char buf[65536];
    for (;;) {
        pollfd pf{pfd[0], POLLIN, 0};
        int pr = poll(&pf, 1, 200);
        if (pr > 0) {
            ssize_t n = read(pfd[0], buf, sizeof buf);
            if (n > 0) r.out.append(buf, (size_t)n);
            else if (n == 0) break;
        }
        if (wallNow() - t0 > timeoutSec) { kill(pid, SIGKILL); break; }
    }
    close(pfd[0]);
    waitpid(pid, &r.status, 0);
    r.err = detail::tailOf(errPath);
    unlink(errPath.c_str());
    return r;
}

// Executes `self --replay file` (plus extra args) in a fresh process; returns exit code and stdout.
inline ChildResult execReplay(const Options& opt, const std::string& file, const std::vector<std::string>& extraArgs = {}) {
    ChildResult r;
    int pfd[2];
    if (pipe(pfd) != 0) { perror("pipe"); exit(2); }
    static int replayCounter = 0;
    std::string errPath = std::string(getenv("TMPDIR") ? getenv("TMPDIR") : "/tmp") + "/blochsim.replay." + std::to_string(getpid()) + "." + std::to_string(replayCounter++) + ".err";
    fflush(stdout); fflush(stderr);
    pid_t pid = fork();
    if (pid == 0) {
        close(pfd[0]);
        dup2(pfd[1], 1);
        int dn = open(errPath.c_str(), O_WRONLY | O_CREAT | O_TRUNC, 0644);
        if (dn >= 0) dup2(dn, 2);
        alarm(300);   // survives the exec: a replay that does not end is killed with SIGALRM and classified as signal:14
        personality(ADDR_NO_RANDOMIZE);   // the same address-space layout in every replay process
        std::vector<std::string> args = {opt.self, "--replay", file, "--property", opt.property, "--flavour", opt.flavour};
        if (!opt.mode.empty()) { args.push_back("--mode"); args.push_back(opt.mode); }
        for (auto& a : extraArgs) args.push_back(a);
        std::vector<char*> av;
        for (auto& a : args) av.push_back(const_cast<char*>(a.c_str()));
        av.push_back(nullptr);
        execv(opt.self.c_str(), av.data());
        _exit(127);
    }
    close(pfd[1]);
    char buf[65536];
    ssize_t n;
    while ((n = read(pfd[0], buf, sizeof buf)) > 0) r.out.append(buf, (size_t)n);
    close(pfd[0]);
    waitpid(pid, &r.status, 0);
    r.err = detail::tailOf(errPath, 200000);
    unlink(errPath.c_str());
    return r;
}

// Classifies an abnormal process end (sanitizer report, signal, terminate) from the wait status and
// the tail of stderr. Returns "" when the process ended with exit code 0 or 1.
inline std::string classifyCrash(int status, const std::string& err) {
    auto lineAfter = [&](const std::string& key) -> std::string {
        size_t p = err.find(key);
        if (p == std::string::npos) return "";
        size_t e = err.find('\n', p);
        return err.substr(p + key.size(), (e == std::string::npos ? err.size() : e) - p - key.size());
    };
    if (err.find("GCSIM-FATAL: ") != std::string::npos) return lineAfter("GCSIM-FATAL: ");
    if (err.find("ERROR: AddressSanitizer: ") != std::string::npos) {
        std::string l = lineAfter("ERROR: AddressSanitizer: ");
        return "asan:" + l.substr(0, l.find(' '));
    }
    if (err.find("SUMMARY: AddressSanitizer: ") != std::string::npos) {  // head of a long report was cut off
        std::string l = lineAfter("SUMMARY: AddressSanitizer: ");
        return "asan:" + l.substr(0, l.find(' '));
    }
    if (err.find("SUMMARY: ThreadSanitizer: ") != std::string::npos && err.find("WARNING: ThreadSanitizer: ") == std::string::npos) {
        std::string l = lineAfter("SUMMARY: ThreadSanitizer: ");
        size_t q = l.find(" /");
        return "tsan:" + (q == std::string::npos ? l.substr(0, 40) : l.substr(0, q));
    }
    if (err.find("WARNING: ThreadSanitizer: ") != std::string::npos) {
        std::string l = lineAfter("WARNING: ThreadSanitizer: ");
        size_t q = l.find(" (pid");
        return "tsan:" + (q == std::string::npos ? l.substr(0, 40) : l.substr(0, q));
    }
    if (err.find("runtime error: ") != std::string::npos) return "ubsan:" + lineAfter("runtime error: ").substr(0, 48);
    if (err.find("terminate called") != std::string::npos) return "terminate";
    if (WIFSIGNALED(status)) return "signal:" + std::to_string(WTERMSIG(status));
    if (WIFEXITED(status) && WEXITSTATUS(status) != 0 && WEXITSTATUS(status) != 1) return "exit:" + std::to_string(WEXITSTATUS(status));
    return "";
}

// ----------------------------------------------------------------------------------------------
// Greedy delta debugging over a vector of items: tries removing chunks while `fails(candidate)`.
template <class T>
std::vector<T> ddmin(std::vector<T> items, const std::function<bool(const std::vector<T>&)>& fails, int& budget) {
    size_t chunk = std::max<size_t>(1, items.size() / 2);
    while (chunk >= 1 && !items.empty() && budget > 0) {
        bool removedAny = false;
        for (size_t start = 0; start < items.size() && budget > 0;) {
            std::vector<T> cand;
            cand.insert(cand.end(), items.begin(), items.begin() + (long)start);
            size_t end = std::min(items.size(), start + chunk);
            cand.insert(cand.end(), items.begin() + (long)end, items.end());
            --budget;
            if (fails(cand)) { items.swap(cand); removedAny = true; }
            else start += chunk;
        }
        if (chunk == 1 && !removedAny) break;
        if (!removedAny) chunk /= 2;
        else chunk = std::max<size_t>(1, std::min(chunk, items.size() / 2 ? items.size() / 2 : 1));
    }
    return items;
}

// ----------------------------------------------------------------------------------------------
// Known findings
struct KnownFindings {
    struct Entry { std::string property, signature, description; };
    std::vector<Entry> known;
    bool load(const std::string& path) {
        std::string txt;
        if (!readFile(path, txt)) return false;
        Json j;
        if (!Json::parse(txt, j)) return false;
        for (auto& e : j.at("known").a) known.push_back({e.at("property").asStr(), e.at("signature").asStr(), e.at("description").asStr()});
        return true;
    }
    const Entry* match(const std::string& prop, const std::string& sig) const {
        for (auto& e : known)
            if (e.property == prop && e.signature == sig) return &e;
        return nullptr;
    }
};

// ----------------------------------------------------------------------------------------------
// Violation gate + reporting. Returns process exit code (0 ok, 1 violation, 2 harness fault).
struct CheckSummary {
    int exitCode = 0;
    uint64_t violations = 0;       // unlisted violations
    uint64_t knownHits = 0;
    std::vector<std::string> lines;  // lines printed (VIOLATION / KNOWN-FINDING)
    Json details = Json::array();
};

inline std::string replayPath(const Options& opt, uint64_t run, const std::string& suffix = "") {
    std::string dir = opt.replayDir + "/" + opt.property;
    mkdirs(dir);
    return dir + "/seed-" + std::to_string(opt.seed) + "-run-" + std::to_string(run) + (opt.flavour == "plain" ? "" : "-" + opt.flavour) + suffix + ".json";
}

// For each violation: write the replay file, confirm it in a fresh process (must exit 1 and print the
// same class), then classify against known findings. One VIOLATION line per distinct signature (first
// run wins), at most `maxReport`.
inline CheckSummary gateViolations(const Options& opt, BatchResult& R, size_t maxReport = 5) {
    CheckSummary S;
    KnownFindings kf;
    kf.load(opt.knownFile);
    std::set<std::string> seenSig, knownPrinted;
    for (auto& rv : R.violations) {
        Violation& v = rv.second;
        if (seenSig.count(v.signature)) continue;
        seenSig.insert(v.signature);
        if (auto* e = kf.match(opt.property, v.signature)) {
            if (!knownPrinted.count(v.signature)) {
                knownPrinted.insert(v.signature);
                std::string line = "KNOWN-FINDING: property=" + opt.property + " " + e->description;
                S.lines.push_back(line);
                S.knownHits++;
            }
            continue;
        }
        if (S.violations >= maxReport) continue;
        Json file = Json::object();
        file.set("engine_property", opt.property).set("seed", Json((unsigned long long)opt.seed)).set("run", Json((unsigned long long)rv.first))
            .set("flavour", opt.flavour).set("mode", opt.mode)
            .set("violation", Json::object().set("class", v.cls).set("signature", v.signature).set("detail", v.detail))
            .set("plan", v.plan);
        std::string path = replayPath(opt, rv.first);
        writeFile(path, file.dump(1) + "\n");
        if (!v.reproducible) {
            fprintf(stderr, "HARNESS: violation at run %" PRIu64 " (%s) did not reproduce in-worker; refusing to report\n", rv.first, v.cls.c_str());
            S.exitCode = 2;
            continue;
        }
        ChildResult cr = execReplay(opt, path);
        bool same = WIFEXITED(cr.status) && WEXITSTATUS(cr.status) == 1 && cr.out.find("REPLAY violation class=" + v.cls) != std::string::npos;
        if (!same) {
            fprintf(stderr, "HARNESS: fresh-process replay of %s did not reproduce class %s (exit=%s, out=%s)\n", path.c_str(), v.cls.c_str(), cr.describe().c_str(), cr.out.substr(0, 400).c_str());
            S.exitCode = 2;
            continue;
        }
        S.violations++;
        S.lines.push_back("VIOLATION property=" + opt.property + " replay=" + path);
        S.lines.push_back("  class=" + v.cls + " signature=" + v.signature);
        S.lines.push_back("  " + v.detail.substr(0, 600));
        S.details.push(Json::object().set("run", Json((unsigned long long)rv.first)).set("class", v.cls).set("signature", v.signature).set("replay", path));
    }
    if (S.violations > 0) S.exitCode = 1;  // a confirmed violation outranks an unreproducible one
    return S;
}

// ----------------------------------------------------------------------------------------------
// Evidence
inline Json evidenceSkeleton(const Options& opt, const BatchResult& R, const std::string& rule, uint64_t unlistedViolations) {
    Json cov = Json::object();
    cov.set("evaluations", Json((unsigned long long)R.runs));
    cov.set("distinct_nontrivial", Json((unsigned long long)R.distinct.size()));
    cov.set("rule", rule);
    Json samples = Json::array();
    for (auto& s : R.samples) {
        Json j;
        if (Json::parse(s, j)) samples.push(j);
        else samples.push(Json(s));
    }
    cov.set("samples", samples);
    cov.set("nontrivial_runs", Json((unsigned long long)R.nontrivialRuns));
    Json counters = Json::object();
    for (auto& kv : R.counters) counters.set(kv.first, Json((unsigned long long)kv.second));
    cov.set("counters", counters);
    cov.set("runs_per_hour", R.wall > 0 ? (double)R.runs / R.wall * 3600.0 : 0.0);
    cov.set("simulated_time_s", R.simTime);
    cov.set("wall_capped", R.wallCapped);
    cov.set("crashed_workers", Json((unsigned long long)R.crashes.size()));
    Json ev = Json::object();
    ev.set("property_id", opt.property).set("tier", opt.tier).set("seed", Json((unsigned long long)opt.seed)).set("level", "exploration");
    ev.set("coverage", cov);
    ev.set("wall_s", R.wall);
    ev.set("violations", Json((unsigned long long)unlistedViolations));
    return ev;
}

inline void writeEvidence(const Options& opt, const Json& ev) {
    if (!opt.fragment.empty()) { writeFile(opt.fragment, ev.dump(1) + "\n"); return; }
    if (opt.noEvidence) return;
    mkdirs(opt.evidenceDir);
    writeFile(opt.evidenceDir + "/" + opt.property + ".json", ev.dump(1) + "\n");
}

inline void printSummary(const CheckSummary& S) {
    for (auto& l : S.lines) printf("%s\n", l.c_str());
    fflush(stdout);
}

}  // namespace sim
