// Reference models for the quantum engines: a dense statevector simulator written from the
// OpenQASM qelib1 definitions (rotations as exp(-i t P/2), little-endian qubit order), the libstdc++
// words->double mapping used by measurement draws, and a reader/replayer for the emitted OpenQASM 2.0
// subset. Independent of /repo: nothing here includes repository headers.
#pragma once

#include <cmath>
#include <complex>
#include <cstdint>
#include <string>
#include <vector>

namespace refq {

using cplx = std::complex<double>;

inline std::string fd(double v) {
    char b[48];
    snprintf(b, sizeof b, "%.6g", v);
    return b;
}

// libstdc++ generate_canonical<double,53> over a 32-bit URBG, then uniform_real_distribution(0,1)
inline double wordsToUnit(uint32_t w0, uint32_t w1) {
    double sum = (double)w0 + (double)w1 * 4294967296.0;
    double r = sum / 18446744073709551616.0;
    if (r >= 1.0) r = std::nextafter(1.0, 0.0);
    return r;
}
// 64-bit value whose two words map (approximately) to the requested r in [0,1)
inline uint64_t unitToBits(double r) {
    if (r <= 0) return 0;
    if (r >= 1) return ~0ull;
    long double x = (long double)r * 18446744073709551616.0L;
    if (x >= 18446744073709551615.0L) return ~0ull;
    return (uint64_t)x;
}

struct SV {
    int n = 0;
    std::vector<cplx> a{cplx(1, 0)};

    int alloc() {
        std::vector<cplx> b(a.size() * 2, cplx(0, 0));
        for (size_t i = 0; i < a.size(); ++i) b[i] = a[i];
        a.swap(b);
        return n++;
    }
    void gate1(int q, cplx m00, cplx m01, cplx m10, cplx m11) {
        size_t bit = size_t{1} << q;
        for (size_t i = 0; i < a.size(); ++i) {
            if (i & bit) continue;
            cplx x = a[i], y = a[i | bit];
            a[i] = m00 * x + m01 * y;
            a[i | bit] = m10 * x + m11 * y;
        }
    }
    void h(int q) { double s = 1.0 / std::sqrt(2.0); gate1(q, s, s, s, -s); }
    void x(int q) { gate1(q, 0, 1, 1, 0); }
    void y(int q) { gate1(q, 0, cplx(0, -1), cplx(0, 1), 0); }
    void z(int q) { gate1(q, 1, 0, 0, -1); }
    void rx(int q, double t) { double c = std::cos(t / 2), s = std::sin(t / 2); gate1(q, c, cplx(0, -s), cplx(0, -s), c); }
    void ry(int q, double t) { double c = std::cos(t / 2), s = std::sin(t / 2); gate1(q, c, -s, s, c); }
    void rz(int q, double t) { gate1(q, std::exp(cplx(0, -t / 2)), 0, 0, std::exp(cplx(0, t / 2))); }
    void cx(int c, int t) {
        size_t cb = size_t{1} << c, tb = size_t{1} << t;
        for (size_t i = 0; i < a.size(); ++i)
            if ((i & cb) && !(i & tb)) std::swap(a[i], a[i | tb]);
    }
    // 0:h 1:x 2:y 3:z 4:rx 5:ry 6:rz
    void gate(int g, int q, double t) {
        switch (g) {
            case 0: h(q); break;
            case 1: x(q); break;
            case 2: y(q); break;
            case 3: z(q); break;
            case 4: rx(q, t); break;
            case 5: ry(q, t); break;
            case 6: rz(q, t); break;
        }
    }
    double prob1(int q) const {
        size_t bit = size_t{1} << q;
        double p = 0;
        for (size_t i = 0; i < a.size(); ++i)
            if (i & bit) p += std::norm(a[i]);
        return p;
    }
    double norm2() const {
        double p = 0;
        for (auto& v : a) p += std::norm(v);
        return p;
    }
    bool finite() const {
        for (auto& v : a)
            if (!std::isfinite(v.real()) || !std::isfinite(v.imag())) return false;
        return true;
    }
    // normalised projection onto outcome of qubit q
    void collapse(int q, int outcome) {
        size_t bit = size_t{1} << q;
        double p = 0;
        for (size_t i = 0; i < a.size(); ++i)
            if (((i & bit) ? 1 : 0) == outcome) p += std::norm(a[i]);
        double inv = p > 0 ? 1.0 / std::sqrt(p) : 0.0;
        for (size_t i = 0; i < a.size(); ++i) {
            if (((i & bit) ? 1 : 0) == outcome) a[i] *= inv;
            else a[i] = 0;
        }
    }
    // reset with a chosen branch: project on branch, normalise, move to |0>
    void resetBranch(int q, int fromOne) {
        collapse(q, fromOne);
        if (fromOne) x(q);
    }
};

inline double maxDiff(const std::vector<cplx>& a, const std::vector<cplx>& b) {
    if (a.size() != b.size()) return 1e9;
    double m = 0;
    for (size_t i = 0; i < a.size(); ++i) {
        double d = std::abs(a[i] - b[i]);
        if (!(d <= m)) m = d;  // NaN propagates as "large"
        if (std::isnan(d)) return 1e9;
    }
    return m;
}
// distance up to a global phase
inline double maxDiffUpToPhase(const std::vector<cplx>& a, const std::vector<cplx>& b) {
    if (a.size() != b.size()) return 1e9;
    size_t k = 0;
    double best = 0;
    for (size_t i = 0; i < a.size(); ++i)
        if (std::abs(a[i]) > best) { best = std::abs(a[i]); k = i; }
    if (best < 1e-12 || std::abs(b[k]) < 1e-12) return maxDiff(a, b);
    cplx ph = (a[k] / std::abs(a[k])) / (b[k] / std::abs(b[k]));
    double m = 0;
    for (size_t i = 0; i < a.size(); ++i) {
        double d = std::abs(a[i] - ph * b[i]);
        if (std::isnan(d)) return 1e9;
        if (d > m) m = d;
    }
    return m;
}

// reduced density matrix of all qubits except q (dimension 2^(n-1))
inline std::vector<cplx> reducedWithout(const SV& s, int q) {
    size_t bit = size_t{1} << q, dim = s.a.size() / 2;
    auto expand = [&](size_t r, int v) {
        size_t low = r & (bit - 1), high = (r >> q) << (q + 1);
        return high | (v ? bit : 0) | low;
    };
    std::vector<cplx> rho(dim * dim, cplx(0, 0));
    for (size_t r = 0; r < dim; ++r)
        for (size_t c = 0; c < dim; ++c)
            for (int v = 0; v < 2; ++v) rho[r * dim + c] += s.a[expand(r, v)] * std::conj(s.a[expand(c, v)]);
    return rho;
}

// ---- OpenQASM 2.0 (emitted subset) --------------------------------------------------------------
struct QasmOp {
    int kind = -1;  // 0..6 single-qubit gates (h x y z rx ry rz), 7 cx, 8 measure, 9 reset
    int q0 = -1, q1 = -1;
    double angle = 0;
    std::string text;
};
struct QasmProgram {
    bool ok = false;
    std::string error;
    int qreg = -1, creg = -1;
    std::vector<QasmOp> ops;
};

inline QasmProgram parseQasm(const std::string& text) {
    QasmProgram P;
    std::vector<std::string> lines;
    {
        std::string cur;
        for (char c : text) {
            if (c == '\n') { lines.push_back(cur); cur.clear(); }
            else cur.push_back(c);
        }
        if (!cur.empty()) { P.error = "text does not end with a newline"; return P; }
    }
    if (lines.size() < 4) { P.error = "fewer than four lines"; return P; }
    if (lines[0] != "OPENQASM 2.0;") { P.error = "bad version line '" + lines[0] + "'"; return P; }
    if (lines[1] != "include \"qelib1.inc\";") { P.error = "bad include line '" + lines[1] + "'"; return P; }
    auto parseReg = [&](const std::string& l, const char* kw, const char* name, int& out) {
        std::string pre = std::string(kw) + " " + name + "[";
        if (l.compare(0, pre.size(), pre) != 0) return false;
        size_t e = l.find("];", pre.size());
        if (e == std::string::npos || e + 2 != l.size()) return false;
        std::string num = l.substr(pre.size(), e - pre.size());
        if (num.empty() || num.find_first_not_of("0123456789") != std::string::npos) return false;
        out = std::stoi(num);
        return true;
    };
    if (!parseReg(lines[2], "qreg", "q", P.qreg)) { P.error = "bad qreg line '" + lines[2] + "'"; return P; }
    if (!parseReg(lines[3], "creg", "c", P.creg)) { P.error = "bad creg line '" + lines[3] + "'"; return P; }
    auto parseIdx = [&](const std::string& s, size_t& pos, const char* reg, int& out) {
        std::string pre = std::string(reg) + "[";
        if (s.compare(pos, pre.size(), pre) != 0) return false;
        size_t e = s.find(']', pos);
        if (e == std::string::npos) return false;
        std::string num = s.substr(pos + pre.size(), e - pos - pre.size());
        if (num.empty() || num.find_first_not_of("0123456789") != std::string::npos || num.size() > 6) return false;
        out = std::stoi(num);
        pos = e + 1;
        return true;
    };
    static const char* g1[] = {"h", "x", "y", "z"};
    static const char* gr[] = {"rx", "ry", "rz"};
    for (size_t li = 4; li < lines.size(); ++li) {
        const std::string& l = lines[li];
        QasmOp op;
        op.text = l;
        size_t pos = 0;
        bool done = false;
        for (int g = 0; g < 4 && !done; ++g) {
            std::string pre = std::string(g1[g]) + " ";
            if (l.compare(0, pre.size(), pre) == 0) {
                pos = pre.size();
                if (!parseIdx(l, pos, "q", op.q0) || l.substr(pos) != ";") { P.error = "malformed line '" + l + "'"; return P; }
                op.kind = g;
                done = true;
            }
        }
        for (int g = 0; g < 3 && !done; ++g) {
            std::string pre = std::string(gr[g]) + "(";
            if (l.compare(0, pre.size(), pre) == 0) {
                size_t e = l.find(") ", pre.size());
                if (e == std::string::npos) { P.error = "malformed line '" + l + "'"; return P; }
                std::string num = l.substr(pre.size(), e - pre.size());
                // OpenQASM 2.0 real: optional sign, digits with a decimal point, optional exponent
                bool okNum = !num.empty();
                size_t k = 0;
                if (k < num.size() && (num[k] == '-' || num[k] == '+')) ++k;
                size_t digits = 0;
                bool dot = false;
                for (; k < num.size(); ++k) {
                    if (isdigit((unsigned char)num[k])) ++digits;
                    else if (num[k] == '.' && !dot) dot = true;
                    else if ((num[k] == 'e' || num[k] == 'E') && digits > 0 && dot) {
                        ++k;
                        if (k < num.size() && (num[k] == '-' || num[k] == '+')) ++k;
                        size_t ed = 0;
                        for (; k < num.size() && isdigit((unsigned char)num[k]); ++k) ++ed;
                        if (ed == 0 || k != num.size()) okNum = false;
                        break;
                    } else { okNum = false; break; }
                }
                if (!okNum || digits == 0 || !dot) { P.error = "angle '" + num + "' is not an OpenQASM real literal in '" + l + "'"; return P; }
                op.angle = strtod(num.c_str(), nullptr);
                pos = e + 2;
                if (!parseIdx(l, pos, "q", op.q0) || l.substr(pos) != ";") { P.error = "malformed line '" + l + "'"; return P; }
                op.kind = 4 + g;
                done = true;
            }
        }
        if (!done && l.compare(0, 3, "cx ") == 0) {
            pos = 3;
            if (!parseIdx(l, pos, "q", op.q0) || l.compare(pos, 1, ",") != 0) { P.error = "malformed line '" + l + "'"; return P; }
            pos += 1;
            if (!parseIdx(l, pos, "q", op.q1) || l.substr(pos) != ";") { P.error = "malformed line '" + l + "'"; return P; }
            op.kind = 7;
            done = true;
        }
        if (!done && l.compare(0, 8, "measure ") == 0) {
            pos = 8;
            if (!parseIdx(l, pos, "q", op.q0) || l.compare(pos, 4, " -> ") != 0) { P.error = "malformed line '" + l + "'"; return P; }
            pos += 4;
            if (!parseIdx(l, pos, "c", op.q1) || l.substr(pos) != ";") { P.error = "malformed line '" + l + "'"; return P; }
            op.kind = 8;
            done = true;
        }
        if (!done && l.compare(0, 6, "reset ") == 0) {
            pos = 6;
            if (!parseIdx(l, pos, "q", op.q0) || l.substr(pos) != ";") { P.error = "malformed line '" + l + "'"; return P; }
            op.kind = 9;
            done = true;
        }
        if (!done) { P.error = "unknown statement '" + l + "'"; return P; }
        P.ops.push_back(op);
    }
    // semantic well-formedness
    for (auto& op : P.ops) {
        if (op.q0 < 0 || op.q0 >= P.qreg) { P.error = "qubit index out of range in '" + op.text + "'"; return P; }
        if (op.kind == 7 && (op.q1 < 0 || op.q1 >= P.qreg)) { P.error = "qubit index out of range in '" + op.text + "'"; return P; }
        if (op.kind == 7 && op.q0 == op.q1) { P.error = "two-qubit gate on one qubit in '" + op.text + "'"; return P; }
        if (op.kind == 8 && (op.q1 < 0 || op.q1 >= P.creg)) { P.error = "classical index out of range in '" + op.text + "'"; return P; }
    }
    P.ok = true;
    return P;
}

// Replays a parsed program on a fresh register of qreg qubits, forcing measure/reset branches from
// `outcomes` (consumed in order; for reset the entry says whether the |1> branch was taken; -1 means
// "no recorded branch": take the branch that has all the weight).
inline bool replayQasm(const QasmProgram& P, const std::vector<int>& outcomes, SV& out, std::string& err, double* minBranchWeight = nullptr) {
    double minW = 1.0;
    out = SV{};
    for (int i = 0; i < P.qreg; ++i) out.alloc();
    size_t oc = 0;
    for (auto& op : P.ops) {
        if (op.kind >= 0 && op.kind <= 6) out.gate(op.kind, op.q0, op.angle);
        else if (op.kind == 7) out.cx(op.q0, op.q1);
        else if (op.kind == 8 || op.kind == 9) {
            int o = oc < outcomes.size() ? outcomes[oc] : -1;
            ++oc;
            double p1 = out.prob1(op.q0);
            if (o < 0) o = p1 > 0.5 ? 1 : 0;
            double pw = o ? p1 : 1 - p1;
            if (pw < 1e-12) { err = "recorded outcome has zero probability when replaying '" + op.text + "'"; return false; }
            if (pw < 1) minW *= pw;  // product of the selected branch weights
            if (op.kind == 8) out.collapse(op.q0, o);
            else out.resetBranch(op.q0, o);
        }
    }
    if (minBranchWeight) *minBranchWeight = minW;
    if (oc != outcomes.size()) { err = "emitted program has " + std::to_string(oc) + " measure/reset statements, run recorded " + std::to_string(outcomes.size()); return false; }
    return true;
}

}  // namespace refq
