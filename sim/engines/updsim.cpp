// Engine updsim: C20 (self-update: strictly newer releases only, exact checksum line, throttled notice).
//
// Real code: src/bloch/update/update_manager.cpp in full (included into this translation unit so that
// nothing about it is re-implemented), its cache file handling on a real scratch directory, OpenSSL
// SHA-256. Simulated: the wall clock (--wrap of system_clock::now), the HTTPS client and TLS (scripted
// transport in /verif/shim), std::system (records the tar command, reports failure so that nothing is
// ever installed), the environment, and disk faults on the cache file between invocations.
#include <openssl/evp.h>
#include <sys/stat.h>
#include <unistd.h>

#include <iostream>
#include <sstream>

#include "sim/core/core.hpp"

// the code under test, unmodified
#include "bloch/update/update_manager.cpp"

using sim::Json;

// ---- seams ---------------------------------------------------------------------------------------------
namespace clk {
int64_t nowNs = 1700000000LL * 1000000000LL;
bool active = false;
}
extern "C" {
long __real__ZNSt6chrono3_V212system_clock3nowEv();
long __wrap__ZNSt6chrono3_V212system_clock3nowEv() { return clk::active ? clk::nowNs : __real__ZNSt6chrono3_V212system_clock3nowEv(); }
int __real_system(const char*);
static std::vector<std::string> g_systemCalls;
static bool g_systemStub = false;
int __wrap_system(const char* cmd) {
    if (!g_systemStub) return __real_system(cmd);
    g_systemCalls.push_back(cmd ? cmd : "");
    return 256;  // "tar exited with code 256": extraction fails, nothing is installed
}
}

namespace {

// ---- arbitrary-precision version triples ----------------------------------------------------------------
struct BigVer {
    bool valid = false;
    std::string c[3] = {"0", "0", "0"};  // decimal digit strings without leading zeros
    bool huge = false;                   // some component does not fit an int
};
std::string stripZeros(std::string s) {
    size_t k = 0;
    while (k + 1 < s.size() && s[k] == '0') ++k;
    return s.substr(k);
}
BigVer parseVer(const std::string& version) {
    BigVer v;
    std::string s = version;
    if (!s.empty() && s[0] == 'v') s.erase(s.begin());
    size_t pos = 0;
    for (int idx = 0; idx < 3 && pos < s.size(); ++idx) {
        size_t st = pos;
        while (pos < s.size() && isdigit((unsigned char)s[pos])) ++pos;
        if (st == pos) break;
        v.c[idx] = stripZeros(s.substr(st, pos - st));
        v.valid = true;
        if (v.c[idx].size() > 10 || (v.c[idx].size() == 10 && v.c[idx] > "2147483647")) v.huge = true;
        if (pos >= s.size() || s[pos] != '.') break;
        ++pos;
    }
    return v;
}
int cmpNum(const std::string& a, const std::string& b) {
    if (a.size() != b.size()) return a.size() < b.size() ? -1 : 1;
    return a < b ? -1 : (a > b ? 1 : 0);
}
// <0: a older than b
int cmpVer(const BigVer& a, const BigVer& b) {
    for (int i = 0; i < 3; ++i) {
        int c = cmpNum(a.c[i], b.c[i]);
        if (c) return c;
    }
    return 0;
}

std::string sha256Hex(const std::string& data) {
    unsigned char hash[EVP_MAX_MD_SIZE];
    unsigned int len = 0;
    EVP_MD_CTX* ctx = EVP_MD_CTX_new();
    EVP_DigestInit_ex(ctx, EVP_sha256(), nullptr);
    EVP_DigestUpdate(ctx, data.data(), data.size());
    EVP_DigestFinal_ex(ctx, hash, &len);
    EVP_MD_CTX_free(ctx);
    static const char* hx = "0123456789abcdef";
    std::string s;
    for (unsigned i = 0; i < len; ++i) { s.push_back(hx[hash[i] >> 4]); s.push_back(hx[hash[i] & 15]); }
    return s;
}

// ---- plan --------------------------------------------------------------------------------------------------
enum Tx { TX_CONN = 0, TX_READ, TX_403, TX_404, TX_500, TX_OK, TX_NO_TAG, TX_CUT, TX_COUNT };
const char* txName(int t) {
    static const char* n[] = {"connection_error", "read_error", "status_403", "status_404", "status_500", "ok", "ok_without_tag_name", "body_cut_inside_tag"};
    return t >= 0 && t < TX_COUNT ? n[t] : "?";
}
enum DiskFault { DF_NONE = 0, DF_LOST_WRITE, DF_TORN, DF_FLIP, DF_DIRECTORY, DF_PARENT_IS_FILE, DF_DELETE, DF_GARBAGE_NUMBERS, DF_COUNT };
const char* dfName(int d) {
    static const char* n[] = {"none", "lost_write", "torn_write", "flipped_byte", "replaced_by_directory", "parent_is_a_file", "deleted", "huge_numbers"};
    return d >= 0 && d < DF_COUNT ? n[d] : "?";
}
struct Invocation {
    int kind = 0;                 // 0 checkForUpdatesIfDue, 1 performSelfUpdate
    std::string current;
    int64_t advanceSec = 0;       // clock step before this invocation (may be negative)
    int env = 0;                  // 0 none, 1 BLOCH_NO_UPDATE_CHECK, 2 CI, 3 BLOCH_OFFLINE; 4-6 the same variables present but empty, 7 "0"
                                  // (the pinned code disables on presence, whatever the value)
    int tx = TX_OK;               // latest-release endpoint
    std::string tag;
    int diskFault = DF_NONE;      // applied to the cache file before this invocation
    uint64_t faultArg = 0;
    // performSelfUpdate
    int assetTx = TX_OK;
    int checksumsTx = TX_OK;
    int checksumVariant = 0;
    bool corruptAsset = false;    // served bytes differ from what checksums.txt lists for the exact name
    int answer = 0;               // stdin for the major-update prompt: 0 "y", 1 "n", 2 empty, 3 "yes"
    uint64_t assetSeed = 0;
};
struct History {
    std::vector<Invocation> inv;
};

Json invJson(const Invocation& i) {
    return Json::object().set("kind", i.kind ? "performSelfUpdate" : "checkForUpdatesIfDue").set("k", i.kind).set("current", i.current).set("advance_s", Json((long long)i.advanceSec)).set("env", i.env).set("tx", txName(i.tx)).set("txk", i.tx).set("tag", i.tag)
        .set("disk_fault", dfName(i.diskFault)).set("dfk", i.diskFault).set("fault_arg", sim::hex64(i.faultArg)).set("asset_tx", i.assetTx).set("checksums_tx", i.checksumsTx).set("checksum_variant", i.checksumVariant).set("corrupt_asset", i.corruptAsset)
        .set("answer", i.answer).set("asset_seed", sim::hex64(i.assetSeed));
}
Invocation invFrom(const Json& j) {
    Invocation i;
    i.kind = (int)j.at("k").asInt();
    i.current = j.at("current").asStr();
    i.advanceSec = j.at("advance_s").asInt();
    i.env = (int)j.at("env").asInt();
    i.tx = (int)j.at("txk").asInt();
    i.tag = j.at("tag").asStr();
    i.diskFault = (int)j.at("dfk").asInt();
    i.faultArg = strtoull(j.at("fault_arg").asStr().c_str(), nullptr, 16);
    i.assetTx = (int)j.at("asset_tx").asInt();
    i.checksumsTx = (int)j.at("checksums_tx").asInt();
    i.checksumVariant = (int)j.at("checksum_variant").asInt();
    i.corruptAsset = j.at("corrupt_asset").asBool();
    i.answer = (int)j.at("answer").asInt();
    i.assetSeed = strtoull(j.at("asset_seed").asStr().c_str(), nullptr, 16);
    return i;
}
Json histJson(const History& h) {
    Json a = Json::array();
    for (auto& i : h.inv) a.push(invJson(i));
    return Json::object().set("engine", "updsim").set("invocations", a);
}
History histFrom(const Json& j) {
    History h;
    for (auto& e : j.at("invocations").a) h.inv.push_back(invFrom(e));
    return h;
}

// ---- generator -----------------------------------------------------------------------------------------------
std::string genVersion(sim::Rng& g, bool allowGarbage) {
    static const char* comps[] = {"0", "1", "2", "3", "9", "10", "11", "99", "100", "999", "1000", "1001", "1500", "20260927", "2147483647", "2147483648", "99999999999", "01", "007"};
    static const char* garbage[] = {"", "v", "unknown", "dev", "nightly", "x.y.z", ".1.2", "-1.2.3", "v.1", "\xc3\xa9\xc3\xa9", "latest", "1e3"};
    if (allowGarbage && g.chance(0.12)) return garbage[g.below(12)];
    if (g.chance(0.03)) return std::string(300, '7') + ".1.1";
    std::string s;
    if (g.chance(0.5)) s += "v";
    int n = g.chance(0.8) ? 3 : g.range(1, 4);
    bool small = g.chance(0.75);
    for (int i = 0; i < n; ++i) {
        if (i) s += ".";
        s += small ? comps[g.below(7)] : comps[g.below(19)];
    }
    int suf = (int)g.below(14);
    if (suf == 0) s += "-rc1";
    else if (suf == 1) s += "-3-gabc123";
    else if (suf == 2) s += ".x";
    else if (suf == 3) s += "+build5";
    return s;
}

History generate(sim::Rng& g) {
    History h;
    int n = g.range(3, 12);
    // a few "base" versions per history so that equal/near versions are common
    std::vector<std::string> pool;
    for (int i = 0; i < 4; ++i) pool.push_back(genVersion(g, false));
    std::string current = g.chance(0.15) ? genVersion(g, true) : pool[g.below(4)];
    static const int64_t steps[] = {0, 1, 3600, 71 * 3600 + 3599, 72 * 3600, 72 * 3600 + 1, 24 * 3600, 5 * 24 * 3600, 30LL * 24 * 3600, 10LL * 365 * 24 * 3600, -5 * 3600, -100 * 3600, 36 * 3600, 73 * 3600, 144 * 3600};
    for (int k = 0; k < n; ++k) {
        Invocation i;
        i.kind = g.chance(0.22) ? 1 : 0;
        i.current = g.chance(0.85) ? current : genVersion(g, true);
        i.advanceSec = k == 0 ? 0 : steps[g.below(15)];
        i.env = g.chance(0.12) ? 1 + (int)g.below(7) : 0;
        i.tx = g.chance(0.6) ? TX_OK : (int)g.below(TX_COUNT);
        i.tag = g.chance(0.7) ? pool[g.below(4)] : genVersion(g, true);
        if (g.chance(0.18)) { i.diskFault = 1 + (int)g.below(DF_COUNT - 1); i.faultArg = g.next(); }
        i.assetTx = g.chance(0.8) ? TX_OK : (int)g.below(TX_COUNT);
        i.checksumsTx = g.chance(0.8) ? TX_OK : (int)g.below(TX_COUNT);
        i.checksumVariant = (int)g.below(12);
        i.corruptAsset = g.chance(0.3);
        i.answer = (int)g.below(4);
        i.assetSeed = g.next();
        h.inv.push_back(i);
    }
    return h;
}

// ---- execution ---------------------------------------------------------------------------------------------------
std::string g_scratch;
std::string cachePath() { return g_scratch + "/cache/bloch/update_cache.txt"; }
bool readRegular(const std::string& path, std::string& out) {
    struct stat st;
    out.clear();
    if (stat(path.c_str(), &st) != 0 || !S_ISREG(st.st_mode)) return false;
    return sim::readFile(path, out);
}

std::string assetNameFor(const std::string& tag) {
#if defined(__aarch64__)
    return "bloch-" + tag + "-Linux-ARM64.tar.gz";
#else
    return "bloch-" + tag + "-Linux-X64.tar.gz";
#endif
}

std::string assetBytes(uint64_t seed) {
    sim::Rng r(seed, "asset", 0);
    std::string b;
    size_t n = 100 + r.below(9000);
    for (size_t i = 0; i < n; ++i) b.push_back((char)r.below(256));
    return b;
}

// checksums.txt variants; returns the text and whether it holds an exact entry for the asset and that entry's hash
struct ChecksumFile {
    std::string text;
    bool hasExact = false;
    std::string exactHash;
};
ChecksumFile checksumsFor(int variant, const std::string& asset, const std::string& goodHash, const std::string& otherHash) {
    ChecksumFile f;
    auto line = [](const std::string& h, const std::string& n, const char* sep = "  ") { return h + sep + n + "\n"; };
    switch (variant % 12) {
        case 0: f.text = line(goodHash, asset); f.hasExact = true; f.exactHash = goodHash; break;
        case 1: f.text = line(otherHash, asset + ".sig") + line(goodHash, asset); f.hasExact = true; f.exactHash = goodHash; break;
        case 2: f.text = line(otherHash, asset + ".sbom") + line(otherHash, "x" + asset) + line(goodHash, asset); f.hasExact = true; f.exactHash = goodHash; break;
        case 3: f.text = line(otherHash, asset + ".sig"); break;                                          // only a similarly named line
        case 4: f.text = line(goodHash, asset) + line(otherHash, asset + ".sig"); f.hasExact = true; f.exactHash = goodHash; break;  // reordered
        case 5: f.text = line(otherHash, "bloch-other-Linux-X64.tar.gz"); break;                          // missing
        case 6: f.text = line(goodHash, "*" + asset, " "); f.hasExact = true; f.exactHash = goodHash; break;  // binary-mode marker
        case 7: f.text = goodHash + "  " + asset + "\r\n"; f.hasExact = true; f.exactHash = goodHash; break;  // CRLF line ending
        case 8: f.text = "dist/checksums-Linux-X64.txt\n" + line(goodHash, asset); f.hasExact = true; f.exactHash = goodHash; break;  // as the packager's find -print produces
        case 9: f.text = line(otherHash, "debug/" + asset) + line(goodHash, asset); f.hasExact = true; f.exactHash = goodHash; break;
        case 10: f.text = line(otherHash, "debug/" + asset); break;                                        // only a path-prefixed name
        case 11: f.text = ""; break;
    }
    return f;
}

struct StdCapture {
    std::ostringstream out, err;
    std::istringstream in;
    std::streambuf *oldOut, *oldErr, *oldIn;
    explicit StdCapture(const std::string& input) : in(input), oldOut(std::cout.rdbuf(out.rdbuf())), oldErr(std::cerr.rdbuf(err.rdbuf())), oldIn(std::cin.rdbuf(in.rdbuf())) {}
    ~StdCapture() { std::cout.rdbuf(oldOut); std::cerr.rdbuf(oldErr); std::cin.rdbuf(oldIn); }
};

void applyDiskFault(const Invocation& i, const std::string& previousContent, bool previousExisted) {
    std::string path = cachePath();
    std::string cur;
    bool exists = readRegular(path, cur);
    switch (i.diskFault) {
        case DF_LOST_WRITE:
            if (previousExisted) sim::writeFile(path, previousContent);
            else unlink(path.c_str());
            break;
        case DF_TORN:
            if (exists) { std::string t = cur.substr(0, (size_t)(i.faultArg % (cur.size() + 1))); FILE* f = fopen(path.c_str(), "wb"); if (f) { fwrite(t.data(), 1, t.size(), f); fclose(f); } }
            break;
        case DF_FLIP:
            if (exists && !cur.empty()) { cur[(size_t)(i.faultArg % cur.size())] ^= (char)(1 << ((i.faultArg >> 32) % 8)); FILE* f = fopen(path.c_str(), "wb"); if (f) { fwrite(cur.data(), 1, cur.size(), f); fclose(f); } }
            break;
        case DF_DIRECTORY:
            unlink(path.c_str());
            sim::mkdirs(path);
            break;
        case DF_PARENT_IS_FILE: {
            unlink(path.c_str());
            std::string parent = g_scratch + "/cache/bloch";
            rmdir(parent.c_str());
            sim::mkdirs(g_scratch + "/cache");
            FILE* f = fopen(parent.c_str(), "wb");
            if (f) { fputs("not a directory\n", f); fclose(f); }
            break;
        }
        case DF_DELETE: unlink(path.c_str()); break;
        case DF_GARBAGE_NUMBERS: {
            sim::mkdirs(g_scratch + "/cache/bloch");
            FILE* f = fopen(path.c_str(), "wb");
            if (f) { fputs(i.faultArg % 2 ? "99999999999999999999999\n99999999999.1.1\n-5\n" : "12\n1.2\n\n", f); fclose(f); }
            break;
        }
    }
}
void undoStructuralFaults() {
    // make the cache location usable again (a later invocation may legitimately save)
    struct stat st;
    std::string parent = g_scratch + "/cache/bloch";
    if (stat(parent.c_str(), &st) == 0 && !S_ISDIR(st.st_mode)) unlink(parent.c_str());
    std::string path = cachePath();
    if (stat(path.c_str(), &st) == 0 && S_ISDIR(st.st_mode)) rmdir(path.c_str());
}

struct Verdict {
    std::string cls, detail;
};
struct Stats {
    uint64_t invocations = 0, notices = 0, requests = 0, assetRequests = 0, tornReads = 0, faults = 0, killSwitch = 0, accepted = 0, mismatches = 0, alreadyLatest = 0, prompts = 0;
    std::map<std::string, uint64_t> tx;
    double simSeconds = 0;
};

Verdict runHistory(const History& h, Stats& st) {
    // fresh scratch state
    std::string cmd = "rm -rf '" + g_scratch + "/cache' '" + g_scratch + "/tmp'";
    if (system(cmd.c_str())) {}
    sim::mkdirs(g_scratch + "/tmp");
    setenv("XDG_CACHE_HOME", (g_scratch + "/cache").c_str(), 1);
    setenv("HOME", g_scratch.c_str(), 1);
    setenv("TMPDIR", (g_scratch + "/tmp").c_str(), 1);
    unsetenv("BLOCH_STDLIB_PATH");
    setenv("XDG_DATA_HOME", (g_scratch + "/data").c_str(), 1);
    clk::active = true;
    clk::nowNs = 1700000000LL * 1000000000LL;
    g_systemStub = true;
    int64_t lastNoticeSec = INT64_MIN;
    bool throttleSuspended = false;  // after a disk fault, until the next successful save
    std::string prevContent;
    bool prevExisted = false;
    Verdict v;
    for (size_t k = 0; k < h.inv.size() && v.cls.empty(); ++k) {
        const Invocation& i = h.inv[k];
        int64_t before = clk::nowNs / 1000000000LL;
        clk::nowNs += i.advanceSec * 1000000000LL;
        st.simSeconds += (double)std::llabs(i.advanceSec);
        // a backward clock step does not suspend the throttle: a stamp that lies in the future is simply "inside the window"
        (void)before;
        undoStructuralFaults();
        if (i.diskFault != DF_NONE) {
            applyDiskFault(i, prevContent, prevExisted);
            throttleSuspended = true;
            ++st.faults;
        }
        std::string contentBefore;
        bool existedBefore = readRegular(cachePath(), contentBefore);
        unsetenv("BLOCH_NO_UPDATE_CHECK");
        unsetenv("CI");
        unsetenv("BLOCH_OFFLINE");
        if (i.env == 1) setenv("BLOCH_NO_UPDATE_CHECK", "1", 1);
        if (i.env == 2) setenv("CI", "true", 1);
        if (i.env == 3) setenv("BLOCH_OFFLINE", "1", 1);
        if (i.env == 4) setenv("BLOCH_NO_UPDATE_CHECK", "", 1);
        if (i.env == 5) setenv("CI", "", 1);
        if (i.env == 6) setenv("BLOCH_OFFLINE", "", 1);
        if (i.env == 7) setenv("BLOCH_NO_UPDATE_CHECK", "0", 1);
        // transport script
        std::string asset = assetNameFor(i.tag);
        std::string bytes = assetBytes(i.assetSeed);
        std::string listedHash = sha256Hex(bytes);
        std::string served = bytes;
        if (i.corruptAsset) served[served.size() / 2] ^= 0x55;
        std::string otherHash = sha256Hex("other" + bytes);
        ChecksumFile cf = checksumsFor(i.checksumVariant, asset, listedHash, otherHash);
        shim::transport().log.clear();
        shim::transport().handler = [&](const shim::Request& rq) {
            shim::Reply rp;
            auto apply = [&](int tx, const std::string& okBody) {
                switch (tx) {
                    case TX_CONN: rp.error = httplib::Error::Connection; break;
                    case TX_READ: rp.error = httplib::Error::Read; break;
                    case TX_403: rp.status = 403; rp.body = "{\"message\":\"rate limit\"}"; break;
                    case TX_404: rp.status = 404; rp.body = "Not Found"; break;
                    case TX_500: rp.status = 500; break;
                    case TX_NO_TAG: rp.status = 200; rp.body = "{\"name\":\"release\"}"; break;
                    case TX_CUT: rp.status = 200; rp.body = okBody; rp.cutAfter = okBody.size() / 2; break;
                    default: rp.status = 200; rp.body = okBody; break;
                }
            };
            if (rq.host == "api.github.com") apply(i.tx, "{\"url\":\"x\",\"tag_name\": \"" + i.tag + "\",\"name\":\"r\"}");
            else if (rq.path.size() >= 13 && rq.path.compare(rq.path.size() - 13, 13, "checksums.txt") == 0) apply(i.checksumsTx, cf.text);
            else apply(i.assetTx, served);
            return rp;
        };
        g_systemCalls.clear();
        static const char* answers[] = {"y\n", "n\n", "", "yes\n"};
        std::string out, err;
        bool threw = false;
        std::string what;
        bool ret = false;
        {
            StdCapture cap(answers[i.answer % 4]);
            try {
                if (i.kind == 0) bloch::update::checkForUpdatesIfDue(i.current);
                else ret = bloch::update::performSelfUpdate(i.current, "/nonexistent/bloch");
            } catch (const std::exception& e) {
                threw = true;
                what = e.what();
            } catch (...) {
                threw = true;
                what = "unknown exception";
            }
            out = cap.out.str();
            err = cap.err.str();
        }
        ++st.invocations;
        st.tx[txName(i.tx)]++;
        int64_t nowSec = clk::nowNs / 1000000000LL;
        std::string at = "invocation " + std::to_string(k) + " (" + (i.kind ? "performSelfUpdate" : "checkForUpdatesIfDue") + ", current '" + i.current + "', tag '" + i.tag + "', transport " + txName(i.tx) + ")";
        // (1) never terminates by exception
        if (threw) { v = {"exception_escapes", at + ": " + what}; break; }
        size_t apiRequests = 0, assetRequests = 0, checksumRequests = 0;
        for (auto& rq : shim::transport().log) {
            if (rq.host == "api.github.com") ++apiRequests;
            else if (rq.path.find("checksums.txt") != std::string::npos) ++checksumRequests;
            else ++assetRequests;
        }
        st.requests += shim::transport().log.size();
        st.assetRequests += assetRequests;
        std::string contentAfter;
        bool existsAfter = readRegular(cachePath(), contentAfter);
        BigVer cur = parseVer(i.current);
        bool notice = out.find("There is a new") != std::string::npos;
        if (i.kind == 0) {
            // (2) kill switches
            if (i.env != 0) {
                ++st.killSwitch;
                if (!out.empty() || !err.empty()) { v = {"output_while_checks_disabled", at + ": printed '" + out.substr(0, 120) + err.substr(0, 120) + "'"}; break; }
                if (!shim::transport().log.empty()) { v = {"request_while_checks_disabled", at}; break; }
                if (existsAfter != existedBefore || contentAfter != contentBefore) { v = {"cache_touched_while_checks_disabled", at}; break; }
                prevContent = contentAfter;
                prevExisted = existsAfter;
                continue;
            }
            if (notice) {
                ++st.notices;
                if (out.find("There is a new", out.find("There is a new") + 1) != std::string::npos) { v = {"notice_repeated_within_72h", at + ": two notices printed by one invocation"}; break; }
                // (3) only for a strictly newer, parseable version, and the notice names it
                size_t p1 = out.find("version of Bloch, ");
                size_t p2 = out.find(". You currently have ");
                std::string named = (p1 != std::string::npos && p2 != std::string::npos && p2 > p1) ? out.substr(p1 + 18, p2 - p1 - 18) : "";
                BigVer lat = parseVer(named);
                if (!cur.valid) { v = {"notice_with_unparsable_current_version", at + ": " + out.substr(0, 160)}; break; }
                if (!lat.valid) { v = {"notice_for_unparsable_version", at + ": announced '" + named + "'"}; break; }
                if (cmpVer(cur, lat) >= 0) { v = {"notice_for_version_not_strictly_newer", at + ": announced '" + named + "' while running '" + i.current + "'"}; break; }
                // the announced version must be one the updater has actually seen: the tag just served or the cached one
                bool fromTag = i.tx == TX_OK && named == i.tag;
                bool fromCache = existedBefore && contentBefore.find(named) != std::string::npos;
                if (!fromTag && !fromCache) { v = {"notice_names_unknown_version", at + ": announced '" + named + "'"}; break; }
                // (4) throttle
                if (!throttleSuspended && lastNoticeSec != INT64_MIN && nowSec - lastNoticeSec < 72 * 3600) {
                    v = {"notice_repeated_within_72h", at + ": previous notice " + std::to_string(nowSec - lastNoticeSec) + " s earlier, no disk fault in between"};
                    break;
                }
                lastNoticeSec = nowSec;
                // (5) the notice must be stamped into the cache (otherwise the next invocation repeats it)
                if (existsAfter) {
                    std::istringstream is(contentAfter);
                    std::string l1, l2, l3;
                    std::getline(is, l1);
                    std::getline(is, l2);
                    std::getline(is, l3);
                    if (l3 != std::to_string(nowSec)) { v = {"notice_not_recorded_in_cache", at + ": cache third line '" + l3 + "', now " + std::to_string(nowSec)}; break; }
                    throttleSuspended = false;
                } else {
                    // saving can legitimately fail only if the location is unusable (structural fault this round)
                    if (i.diskFault != DF_DIRECTORY && i.diskFault != DF_PARENT_IS_FILE) { v = {"notice_not_recorded_in_cache", at + ": no cache file after a notice"}; break; }
                }
            }
            if (apiRequests > 1) { v = {"more_than_one_request_per_check", at}; break; }
            if (existsAfter && contentAfter != contentBefore) {
                // a fresh save: three lines, numeric first and third
                std::istringstream is(contentAfter);
                std::string l1, l2, l3;
                std::getline(is, l1);
                std::getline(is, l2);
                std::getline(is, l3);
                bool num1 = !l1.empty() && l1.find_first_not_of("-0123456789") == std::string::npos, num3 = !l3.empty() && l3.find_first_not_of("-0123456789") == std::string::npos;
                if (!num1 || !num3) { v = {"cache_file_malformed_after_save", at + ": '" + contentAfter.substr(0, 80) + "'"}; break; }
                if (i.diskFault == DF_NONE || true) throttleSuspended = throttleSuspended && !notice ? throttleSuspended : throttleSuspended;
            }
        } else {
            // performSelfUpdate
            BigVer lat = parseVer(i.tag);
            bool tagServed = i.tx == TX_OK;
            bool already = out.find("You already have the latest") != std::string::npos;
            if (already) ++st.alreadyLatest;
            if (!tagServed) {
                if (assetRequests || ret) { v = {"update_proceeds_without_release_tag", at}; break; }
            } else {
                bool bothParse = cur.valid && lat.valid;
                bool newer = bothParse && cmpVer(cur, lat) < 0;
                bool hugeInvolved = cur.huge || lat.huge;
                if (assetRequests > 0) {
                    // (6)/(7) an asset is requested only for a strictly newer, parseable release
                    if (!lat.valid) { v = {"asset_requested_for_unparsable_tag", at}; break; }
                    if (!cur.valid || cur.huge) { v = {"asset_requested_with_unparsable_current", at + ": the running version cannot be compared with the release, yet the asset was requested"}; break; }
                    if (!newer) { v = {"asset_requested_for_release_not_newer", at}; break; }
                }
                if (already) {
                    if (newer && !hugeInvolved) { v = {"already_latest_reported_for_newer_release", at}; break; }
                    if (!bothParse) { v = {"already_latest_reported_for_unparsable_version", at}; break; }
                }
                if (bothParse && !newer && !hugeInvolved && !already) { v = {"not_newer_release_not_reported_as_latest", at + ": out='" + out.substr(0, 100) + "' err='" + err.substr(0, 100) + "'"}; break; }
                // (8) checksum verdict, when the asset was downloaded completely
                bool majorBump = bothParse && !hugeInvolved && cmpNum(cur.c[0], lat.c[0]) < 0;
                if (majorBump && out.find("Proceed with the update?") != std::string::npos) ++st.prompts;
                bool declined = majorBump && !(i.answer == 0 || i.answer == 3);
                if (declined && assetRequests) { v = {"download_after_declined_major_update", at}; break; }
                if (assetRequests > 0 && i.assetTx == TX_OK) {
                    bool mismatchReported = err.find("Checksum mismatch") != std::string::npos;
                    bool reachedExtract = !g_systemCalls.empty();
                    bool listAvailable = i.checksumsTx == TX_OK;
                    bool mustReject = listAvailable && cf.hasExact && cf.exactHash != sha256Hex(served);
                    bool mustAccept = !listAvailable || !cf.hasExact || cf.exactHash == sha256Hex(served);
                    if (mustReject && (reachedExtract || !mismatchReported)) { v = {"download_accepted_against_its_checksum_line", at + ": checksums.txt variant " + std::to_string(i.checksumVariant) + " lists another hash for '" + asset + "' but the archive went on to extraction"}; break; }
                    if (mustAccept && mismatchReported) { v = {"download_rejected_although_its_checksum_line_matches", at + ": checksums.txt variant " + std::to_string(i.checksumVariant) + (cf.hasExact ? " lists the right hash for '" : " has no entry for exactly '") + asset + "' but 'Checksum mismatch' was reported"}; break; }
                    if (reachedExtract) ++st.accepted;
                    if (mismatchReported) ++st.mismatches;
                }
            }
            if (ret && !already) { v = {"update_reported_success_with_failing_extraction", at}; break; }
        }
        // nothing may appear outside the scratch directory: the temp dir guard must have cleaned up
        prevContent = contentAfter;
        prevExisted = existsAfter;
        if (i.diskFault == DF_TORN) ++st.tornReads;
    }
    clk::active = false;
    g_systemStub = false;
    shim::transport().handler = nullptr;
    unsetenv("BLOCH_NO_UPDATE_CHECK");
    unsetenv("CI");
    unsetenv("BLOCH_OFFLINE");
    return v;
}

void runOne(const sim::Options& opt, uint64_t run, sim::RunReport& rep) {
    sim::Rng g(opt.seed, "gen", run);
    History h = generate(g);
    // fault-free and fault-injecting configurations are run separately
    if (run % 3 == 0)
        for (auto& i : h.inv) { i.diskFault = DF_NONE; if (i.advanceSec < 0) i.advanceSec = -i.advanceSec; }
    // half of the batch is generated with the known-finding feature (unparsable running version in
    // performSelfUpdate) switched off, so that the listed finding cannot shadow anything in those runs
    if (run % 2 == 0)
        for (auto& i : h.inv) {
            BigVer c = parseVer(i.current);
            if (i.kind == 1 && (!c.valid || c.huge)) i.current = "1.2.3";
        }
    Stats st;
    Verdict v = runHistory(h, st);
    rep.count("runs");
    rep.count("upd.invocations", st.invocations);
    rep.count("upd.notices_printed", st.notices);
    rep.count("upd.requests", st.requests);
    rep.count("upd.asset_requests", st.assetRequests);
    rep.count("upd.disk_faults_applied", st.faults);
    rep.count("upd.cache_torn_then_read", st.tornReads);
    rep.count("upd.kill_switch_invocations", st.killSwitch);
    for (auto& i : h.inv) if (i.env >= 4) rep.count("upd.kill_switch_present_but_empty_or_zero");
    for (auto& i : h.inv) if (i.advanceSec < 0) rep.count("upd.clock_stepped_backwards");
    rep.count("upd.downloads_accepted", st.accepted);
    rep.count("upd.checksum_mismatches_reported", st.mismatches);
    rep.count("upd.already_latest", st.alreadyLatest);
    rep.count("upd.major_update_prompts", st.prompts);
    for (auto& kv : st.tx) rep.count("tx." + kv.first, kv.second);
    for (auto& i : h.inv) if (i.diskFault) rep.count(std::string("fault.") + dfName(i.diskFault));
    rep.simTime = st.simSeconds;
    sim::Hash hh;
    hh.addStr(histJson(h).dump());
    rep.sig = hh.h;
    rep.nontrivial = st.requests > 0;
    if (run < 48) { History s = h; if (s.inv.size() > 4) s.inv.resize(4); rep.sample = histJson(s).dump(); }
    if (v.cls.empty()) return;
    std::string cls = v.cls;
    History cur = h;
    int budget = 200;
    auto failsWith = [&](const History& c) { if (c.inv.empty()) return false; Stats s2; return runHistory(c, s2).cls == cls; };
    std::function<bool(const std::vector<Invocation>&)> f = [&](const std::vector<Invocation>& inv) { History c; c.inv = inv; if (failsWith(c)) { cur = c; return true; } return false; };
    sim::ddmin<Invocation>(cur.inv, f, budget);
    for (size_t k = 0; k < cur.inv.size() && budget > 0; ++k) {
        { History c = cur; c.inv[k].diskFault = DF_NONE; if (c.inv[k].diskFault != cur.inv[k].diskFault && budget-- > 0 && failsWith(c)) cur = c; }
        { History c = cur; c.inv[k].env = 0; if (cur.inv[k].env && budget-- > 0 && failsWith(c)) cur = c; }
        { History c = cur; c.inv[k].advanceSec = 0; if (cur.inv[k].advanceSec && budget-- > 0 && failsWith(c)) cur = c; }
    }
    Stats s1, s2;
    Verdict a1 = runHistory(cur, s1), a2 = runHistory(cur, s2);
    sim::Violation vio;
    vio.cls = cls;
    vio.signature = "upd:" + cls;
    vio.detail = a1.detail.empty() ? v.detail : a1.detail;
    vio.reproducible = a1.cls == cls && a2.cls == cls && a1.detail == a2.detail;
    vio.plan = histJson(cur);
    rep.violations.push_back(std::move(vio));
}

int doReplay(const sim::Options& opt) {
    std::string txt;
    if (!sim::readFile(opt.replay, txt)) { fprintf(stderr, "cannot read %s\n", opt.replay.c_str()); return 2; }
    Json file;
    if (!Json::parse(txt, file)) { fprintf(stderr, "bad json\n"); return 2; }
    const Json& pj = file.has("plan") ? file.at("plan") : file;
    History h = histFrom(pj);
    Stats st;
    Verdict v = runHistory(h, st);
    if (v.cls.empty()) { printf("REPLAY ok\n"); return 0; }
    printf("REPLAY violation class=%s\n  %s\n", v.cls.c_str(), v.detail.c_str());
    return 1;
}

}  // namespace

int main(int argc, char** argv) {
    sim::Options opt = sim::parseOptions(argc, argv);
    opt.property = "C20";
    g_scratch = std::string(getenv("TMPDIR") ? getenv("TMPDIR") : "/tmp") + "/blochsim.updsim." + std::to_string(getpid());
    if (!opt.replay.empty()) {
        sim::mkdirs(g_scratch);
        int rc = doReplay(opt);
        std::string cmd = "rm -rf '" + g_scratch + "'";
        if (system(cmd.c_str())) {}
        return rc;
    }
    bool thorough = opt.tier == "thorough";
    uint64_t nRuns = thorough ? 1500000 : 40000;
    double cap = thorough ? 420 : 40;
    if (opt.runs > 0) nRuns = (uint64_t)opt.runs;
    if (opt.wallCap > 0) cap = opt.wallCap;
    printf("updsim property=C20 tier=%s VERIF_SEED=%llu runs=%llu workers=%d\n", opt.tier.c_str(), (unsigned long long)opt.seed, (unsigned long long)nRuns, opt.workers);
    fflush(stdout);
    sim::RunFn fn = [&](uint64_t run, sim::RunReport& rep) { runOne(opt, run, rep); };
    std::string base = g_scratch;
    auto workerInit = [&]() { g_scratch = base + ".w" + std::to_string(getpid()); sim::mkdirs(g_scratch); };
    if (opt.selftestDeterminism) {
        sim::Options o1 = opt;
        o1.workers = 1 + (int)(opt.seed % 3);
        uint64_t n = opt.runs > 0 ? (uint64_t)opt.runs : 3000;
        sim::BatchResult a = sim::runBatch(o1, n, fn, 0, 3, workerInit), b = sim::runBatch(opt, n, fn, 0, 3, workerInit);
        bool same = a.hashOfAll == b.hashOfAll && a.runs == b.runs && a.counters == b.counters;
        printf("determinism: runs=%llu hashA=%016llx hashB=%016llx %s\n", (unsigned long long)a.runs, (unsigned long long)a.hashOfAll, (unsigned long long)b.hashOfAll, same ? "SAME" : "DIFFERENT");
        std::string cmd = "rm -rf " + base + ".w*";
        if (system(cmd.c_str())) {}
        return same ? 0 : 2;
    }
    sim::BatchResult R = sim::runBatch(opt, nRuns, fn, cap, 3, workerInit);
    {
        std::string cmd = "rm -rf " + base + ".w*";
        if (system(cmd.c_str())) {}
    }
    sim::CheckSummary S = sim::gateViolations(opt, R);
    for (auto& c : R.crashes) {
        fprintf(stderr, "HARNESS: worker died in run %llu: %s\n%s\n", (unsigned long long)c.run, sim::classifyCrash(c.status, c.stderrTail).c_str(), c.stderrTail.substr(0, 1500).c_str());
        if (S.exitCode == 0) S.exitCode = 2;
    }
    std::vector<std::string> mandatory = {"upd.notices_printed", "upd.asset_requests", "upd.cache_torn_then_read", "upd.kill_switch_invocations", "upd.downloads_accepted", "upd.checksum_mismatches_reported", "upd.already_latest", "upd.major_update_prompts",
                                          "tx.connection_error", "tx.read_error", "tx.status_403", "tx.status_404", "tx.status_500", "tx.ok", "tx.ok_without_tag_name", "tx.body_cut_inside_tag"};
    if (R.runs >= 1000)
        for (auto& m : mandatory)
            if (R.counters[m] == 0) { fprintf(stderr, "HARNESS: mandatory reach counter %s is zero\n", m.c_str()); if (S.exitCode == 0) S.exitCode = 2; }
    Json ev = sim::evidenceSkeleton(opt, R,
                                    "one run = one history of 3-12 invocations of checkForUpdatesIfDue / performSelfUpdate over one cache file, with the simulated wall clock stepped between invocations (seconds, the 72 h edge +-1 s, days, +10 years, backwards), environment kill switches, a scripted HTTPS transport (connection/read errors, 403/404/500, JSON with/without tag_name, body cut inside the tag; tags newer/equal/older per component, v-prefix, missing components, suffixes, components >= 1000, > INT_MAX, 300 digits, garbage), asset bytes and checksums.txt variants (exact line; after .sig/.sbom/x-prefixed/path-prefixed lines; only similar names; reordered; missing; binary-mode marker; CRLF; packager's find -print header), and disk faults on the cache between invocations (lost, torn, flipped byte, directory in its place, parent is a file, deleted, huge numbers); a third of the runs are fault-free; non-trivial = at least one request reached the transport; distinct = distinct history",
                                    S.violations);
    Json& cov = const_cast<Json&>(ev.at("coverage"));
    Json ff = Json::object();
    for (auto& kv : R.counters)
        if (kv.first.rfind("fault.", 0) == 0 || kv.first.rfind("tx.", 0) == 0) ff.set(kv.first, Json((unsigned long long)kv.second));
    ff.set("kill_switch_invocations", Json((unsigned long long)R.counters["upd.kill_switch_invocations"]));
    cov.set("faults_fired", ff);
    cov.set("components", Json::object().set("real", Json::arrayOf(std::vector<std::string>{"update_manager.cpp (policy, cache file, version parsing, checksum selection, SHA-256 via OpenSSL)", "std::filesystem / fstream on a real scratch directory"}))
                              .set("stub", Json::arrayOf(std::vector<std::string>{"HTTPS client and TLS (scripted transport, shim/third_party/cpp-httplib/httplib.h)", "std::system (tar): always fails, nothing is installed", "system clock (simulated)"})));
    cov.set("known_findings_hit", Json((unsigned long long)S.knownHits));
    cov.set("violation_details", S.details);
    ev.set("assumptions", Json::arrayOf(std::vector<std::string>{"a version parses iff, after an optional 'v', it starts with a digit run; up to three dot-separated runs are compared as arbitrary-precision integers; versions with a component above INT_MAX may be treated as unparsable by the code",
                                                                 "the 72 h clause is suspended after a disk fault until the next recorded notice (not after a backward clock step: a notice stamp in the future counts as inside the window)", "announcing is judged only in the 'only if' direction: the property does not oblige the updater to print a notice"}));
    sim::writeEvidence(opt, ev);
    sim::printSummary(S);
    printf("updsim done: runs=%llu distinct=%zu wall=%.1fs violations=%llu known=%llu exit=%d\n", (unsigned long long)R.runs, R.distinct.size(), R.wall, (unsigned long long)S.violations, (unsigned long long)S.knownHits, S.exitCode);
    return S.exitCode;
}
