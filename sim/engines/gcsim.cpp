// Engine gcsim: C11 (GC unobservable under every schedule, race-free, timer always stopped) and
// C12 (never crashes: schedule x error point x teardown, plus input-edge templates as workload).
//
// Real code: lexer, parser, analyser, RuntimeEvaluator incl. its GC timer thread, collector, teardown.
// Simulated: the steady clock, delivery/loss of the stop notification, which statement boundary sees
// a timer tick, the point at which a runtime error strikes.
#include <iostream>
#include <sstream>

#include "bloch/compiler/lexer/lexer.hpp"
#include "bloch/compiler/parser/parser.hpp"
#include "bloch/compiler/semantics/semantic_analyser.hpp"
#include "bloch/runtime/runtime_evaluator.hpp"
#include "sim/core/core.hpp"
#include "sim/gen/classprog.hpp"
#include "sim/seams/gcsched.hpp"

using namespace bloch;
using sim::Json;

#ifndef VERIF_FLAVOUR
#define VERIF_FLAVOUR "plain"
#endif

extern "C" {
__attribute__((used)) const char* __asan_default_options() { return "exitcode=77:detect_leaks=0:abort_on_error=0:allocator_may_return_null=1:detect_stack_use_after_return=1"; }
__attribute__((used)) const char* __tsan_default_options() { return "exitcode=66:halt_on_error=1:report_signal_unsafe=0"; }
__attribute__((used)) const char* __ubsan_default_options() { return "print_stacktrace=1"; }
}

namespace {

struct Outcome {
    int status = 0;  // 0 normal, 1 BlochError(Runtime), 2 other BlochError, 3 other std::exception, 9 rejected by front end
    std::string message;
    std::vector<std::string> echoes;
    std::string out, err, tracked, qasm;
    uint64_t yields = 0;
    std::vector<uint32_t> tickYields;
    gcs::Stats stats;
    std::string invariant;
    uint64_t collections = 0, collectionsWithGarbage = 0, collectionsWithPendingTemp = 0, maxLive = 0;
    sim::Hash evlog;
};

// ---- per-yield observer: invariants + reach probes ----------------------------------------------
Outcome* g_cur = nullptr;

void countRefs(const runtime::Value& v, std::unordered_map<const runtime::Object*, long>& m) {
    if (v.type == runtime::Value::Type::Object && v.objectValue) ++m[v.objectValue.get()];
    else if (v.type == runtime::Value::Type::ObjectArray)
        for (auto& o : v.objectArray)
            if (o) ++m[o.get()];
}

void observer(runtime::RuntimeEvaluator* ev, void*, uint64_t y, bool gcPending) {
    Outcome& o = *g_cur;
    uint64_t live = 0;
    bool sweptAlive = false;
    std::string sweptCls;
    std::vector<std::shared_ptr<runtime::Object>> objs;
    for (auto& w : ev->m_heap) {
        if (auto p = w.lock()) {
            ++live;
            if (p->skipDestructor && !sweptAlive) { sweptAlive = true; sweptCls = p->cls ? p->cls->name : "?"; }
            if (gcPending) objs.push_back(std::move(p));
        }
    }
    if (live > o.maxLive) o.maxLive = live;
    // I2: a swept object (fields wiped, destructor skipped) must not be alive at a statement boundary:
    // sweeping drops every reference between garbage objects, so a survivor is held by something live.
    if (sweptAlive && o.invariant.empty()) o.invariant = "live object of class " + sweptCls + " was swept by the collector (yield " + std::to_string(y) + ")";
    if (gcPending && live > 0) {
        o.collections++;
        o.evlog.add(y * 1315423911ull + live);
        // reach probes: is there garbage, and is some object held only by an interpreter temporary?
        std::unordered_map<const runtime::Object*, long> heapRefs, rootRefs;
        for (auto& p : objs)
            for (auto& f : p->fields) countRefs(f, heapRefs);
        for (auto& scope : ev->m_env)
            for (auto& kv : scope) countRefs(kv.second.value, rootRefs);
        for (auto& kv : ev->m_classTable)
            for (auto& v : kv.second->staticStorage) countRefs(v, rootRefs);
        countRefs(ev->m_returnValue, rootRefs);
        // mark from roots
        std::unordered_set<const runtime::Object*> marked;
        std::vector<const runtime::Object*> stack;
        for (auto& kv : rootRefs) stack.push_back(kv.first);
        while (!stack.empty()) {
            auto* p = stack.back();
            stack.pop_back();
            if (!marked.insert(p).second) continue;
            for (auto& f : p->fields) {
                if (f.type == runtime::Value::Type::Object && f.objectValue) stack.push_back(f.objectValue.get());
                else if (f.type == runtime::Value::Type::ObjectArray)
                    for (auto& q : f.objectArray)
                        if (q) stack.push_back(q.get());
            }
        }
        bool garbage = false, pendingTemp = false;
        for (auto& p : objs) {
            if (marked.count(p.get())) continue;
            long ext = (long)p.use_count() - 1 - heapRefs[p.get()] - rootRefs[p.get()];
            if (ext > 0) pendingTemp = true;
            else garbage = true;
        }
        if (garbage) o.collectionsWithGarbage++;
        if (pendingTemp) o.collectionsWithPendingTemp++;
    }
}

struct CoutCapture {
    std::ostringstream out, err;
    std::streambuf *oldOut, *oldErr;
    CoutCapture() : oldOut(std::cout.rdbuf(out.rdbuf())), oldErr(std::cerr.rdbuf(err.rdbuf())) {}
    ~CoutCapture() { std::cout.rdbuf(oldOut); std::cerr.rdbuf(oldErr); }
};

std::string trackedToString(const runtime::RuntimeEvaluator& ev) {
    std::map<std::string, std::map<std::string, int>> sorted;
    for (auto& a : ev.trackedCounts())
        for (auto& b : a.second) sorted[a.first][b.first] = b.second;
    std::string s;
    for (auto& a : sorted)
        for (auto& b : a.second) s += a.first + "=" + b.first + ":" + std::to_string(b.second) + ";";
    return s;
}

// warmUp: the parsed program is first executed once by another evaluator (collector never, no injection), as every shot
// but the first of a multi-shot run is: anything an execution leaves behind in the tree is then in place
Outcome execute(const std::string& src, const gcs::Schedule& sched, bool warmUp = false) {
    Outcome o;
    std::unique_ptr<compiler::Program> prog;
    try {
        compiler::Lexer lx(src);
        auto toks = lx.tokenize();
        compiler::Parser p(std::move(toks));
        prog = p.parse();
        compiler::SemanticAnalyser an;
        an.analyse(*prog);
    } catch (const std::exception& e) {
        o.status = 9;
        o.message = e.what();
        return o;
    }
    if (warmUp) {
        Outcome scratch;
        g_cur = &scratch;
        gcs::g_observer = &observer;
        gcs::install();
        CoutCapture quiet;
        gcs::Schedule b;
        b.baseline = true;
        gcs::beginRun(b);
        {
            runtime::RuntimeEvaluator first;
            try { first.execute(*prog); } catch (const std::exception&) {}
        }
        gcs::endRun();
    }
    g_cur = &o;
    gcs::g_observer = &observer;
    gcs::install();
    CoutCapture cap;
    gcs::beginRun(sched);
    {
        runtime::RuntimeEvaluator ev;
        try {
            ev.execute(*prog);
            o.status = 0;
        } catch (const support::BlochError& e) {
            o.status = e.category == support::ErrorCategory::Runtime ? 1 : 2;
            o.message = e.what();
        } catch (const std::exception& e) {
            o.status = 3;
            o.message = e.what();
        }
        o.echoes = ev.m_echoBuffer;
        o.tracked = trackedToString(ev);
        o.qasm = ev.getQasm();
    }
    gcs::endRun();
    o.stats = gcs::g_stats;
    o.yields = gcs::g_stats.yields;
    o.tickYields = gcs::g_tickYields;
    o.out = cap.out.str();
    o.err = cap.err.str();
    g_cur = nullptr;
    return o;
}

// ---- oracle -------------------------------------------------------------------------------------
struct Verdict {
    std::string cls;     // empty = ok
    std::string detail;
};

std::string firstDiff(const std::vector<std::string>& a, const std::vector<std::string>& b) {
    size_t n = std::min(a.size(), b.size());
    for (size_t i = 0; i < n; ++i)
        if (a[i] != b[i]) return "echo line " + std::to_string(i) + ": '" + a[i] + "' vs '" + b[i] + "'";
    if (a.size() != b.size()) return "echo count " + std::to_string(a.size()) + " vs " + std::to_string(b.size()) + (a.size() > n ? " (baseline has '" + a[n] + "')" : " (schedule has '" + b[n] + "')");
    return "";
}

// C11: run B (under schedule) against run A (collector never runs before main returns).
Verdict judgeC11(const Outcome& A, const Outcome& B) {
    if (!B.invariant.empty()) return {"swept_object_alive", B.invariant};
    if (A.status != B.status) return {"status_differs", "baseline status " + std::to_string(A.status) + " (" + A.message + ") vs " + std::to_string(B.status) + " (" + B.message + ")"};
    if (A.message != B.message) return {"diagnostic_differs", "'" + A.message + "' vs '" + B.message + "'"};
    std::string d = firstDiff(A.echoes.empty() && A.status == 0 ? std::vector<std::string>{A.out} : A.echoes, B.echoes.empty() && B.status == 0 ? std::vector<std::string>{B.out} : B.echoes);
    if (!d.empty()) {
        // same lines in another order (something ran at a different time) vs different lines (something was lost or duplicated)
        // (after a normal end the echo buffer has been flushed to stdout: compare the printed lines)
        auto lines = [](const Outcome& o) {
            if (!(o.echoes.empty() && o.status == 0)) return o.echoes;
            std::vector<std::string> v;
            std::string cur;
            for (char c : o.out) { if (c == '\n') { v.push_back(cur); cur.clear(); } else cur.push_back(c); }
            if (!cur.empty()) v.push_back(cur);
            return v;
        };
        std::vector<std::string> a = lines(A), b = lines(B);
        std::sort(a.begin(), a.end());
        std::sort(b.begin(), b.end());
        return {a == b ? "output_order_differs_from_gc_never" : "output_differs_from_gc_never", d};
    }
    if (A.out != B.out) return {"output_differs_from_gc_never", "stdout differs"};
    if (A.err != B.err) return {"stderr_differs", "'" + A.err.substr(0, 200) + "' vs '" + B.err.substr(0, 200) + "'"};
    if (A.tracked != B.tracked) return {"tracked_differs", A.tracked + " vs " + B.tracked};
    if (A.qasm != B.qasm) return {"qasm_differs", "qasm text differs"};
    if (A.yields != B.yields) return {"statement_count_differs", std::to_string(A.yields) + " vs " + std::to_string(B.yields) + " statements executed"};
    if (B.stats.livenessViolation) return {"timer_not_stopped", "timer thread was not stopped within 3 simulated timeouts after stop was requested (or blocks without timeout)"};
    if (B.stats.threadAliveAfterRun) return {"timer_thread_alive_after_run", "evaluator destroyed while its timer thread still exists"};
    if (A.stats.livenessViolation) return {"timer_not_stopped", "baseline: timer thread not stopped"};
    if (A.stats.threadAliveAfterRun) return {"timer_thread_alive_after_run", "baseline: evaluator destroyed while its timer thread still exists"};
    return {};
}

// C12: the way a single run ended.
Verdict judgeC12(const Outcome& B) {
    if (B.status == 2) return {"non_runtime_bloch_error", B.message};
    if (B.status == 3) return {"raw_cpp_exception", "what(): " + B.message};
    if (B.status == 1) {
        // must be a Bloch 'Runtime error' diagnostic
        if (B.message.find("Runtime error") == std::string::npos) return {"runtime_error_without_diagnostic", B.message};
    }
    return {};
}

// ---- plan -----------------------------------------------------------------------------------------
struct Plan {
    classprog::Plan prog;
    gcs::Schedule sched;   // either generative or explicit
    std::string property;
    bool secondExecution = false;   // both runs are the second execution of their parsed program (as shots 2..N of a multi-shot run are)
};

Json schedToJson(const gcs::Schedule& s) {
    Json j = Json::object();
    if (s.generative) {
        j.set("mode", "generative").set("mean_inc_ns", Json((long long)s.meanIncNs)).set("gen_seed", sim::hex64(s.genSeed)).set("jump_at_yield", Json((long long)s.jumpAtYield)).set("stall_yields", s.stallYields);
    } else {
        j.set("mode", "explicit");
        Json t = Json::array();
        for (auto y : s.ticks) t.push(Json((unsigned)y));
        j.set("tick_at_yield", t);
    }
    j.set("preempt_seed", sim::hex64(s.preemptSeed)).set("preempt_one_in", s.preemptOneIn).set("resume_one_in", s.resumeOneIn);
    j.set("notify", s.notifyLost ? "lost" : "delivered").set("inject_error_at_yield", Json((long long)s.injectErrorAtYield)).set("inject_kind", s.injectKind);
    return j;
}
gcs::Schedule schedFromJson(const Json& j) {
    gcs::Schedule s;
    if (j.at("mode").asStr() == "generative") {
        s.generative = true;
        s.meanIncNs = j.at("mean_inc_ns").asInt();
        s.genSeed = strtoull(j.at("gen_seed").asStr().c_str(), nullptr, 16);
        s.jumpAtYield = j.at("jump_at_yield").asInt(-1);
        s.stallYields = (int)j.at("stall_yields").asInt();
    } else {
        for (auto& e : j.at("tick_at_yield").a) s.ticks.push_back((uint32_t)e.asInt());
    }
    if (j.has("preempt_seed")) {
        s.preemptSeed = strtoull(j.at("preempt_seed").asStr().c_str(), nullptr, 16);
        s.preemptOneIn = (int)j.at("preempt_one_in").asInt(0);
        s.resumeOneIn = (int)j.at("resume_one_in").asInt(2);
    }
    s.notifyLost = j.at("notify").asStr() == "lost";
    s.injectErrorAtYield = j.at("inject_error_at_yield").asInt(-1);
    s.injectKind = (int)j.at("inject_kind").asInt(0);
    return s;
}
Json planToJson(const Plan& p, bool withSource = true) {
    Json j = Json::object();
    j.set("engine", "gcsim").set("program", classprog::toJson(p.prog)).set("schedule", schedToJson(p.sched)).set("second_execution", p.secondExecution);
    if (withSource) j.set("source_text", classprog::render(p.prog));
    return j;
}
Plan planFromJson(const Json& j) {
    Plan p;
    p.prog = classprog::fromJson(j.at("program"));
    p.sched = schedFromJson(j.at("schedule"));
    p.secondExecution = j.has("second_execution") && j.at("second_execution").asBool();
    return p;
}

gcs::Schedule baselineOf(const gcs::Schedule& s) {
    gcs::Schedule b;
    b.baseline = true;
    b.notifyLost = false;
    b.injectErrorAtYield = s.injectErrorAtYield;
    b.injectKind = s.injectKind;
    return b;
}

struct Evaluation {
    Verdict v;
    Outcome A, B;
    bool rejected = false;
};

// Executes baseline + schedule for a plan and judges it for the property.
Evaluation evaluate(const Plan& p, const std::string& property) {
    Evaluation e;
    std::string src = classprog::render(p.prog);
    e.A = execute(src, baselineOf(p.sched), p.secondExecution);
    if (e.A.status == 9) { e.rejected = true; e.v = {"", e.A.message}; return e; }
    e.B = execute(src, p.sched, p.secondExecution);
    if (property == "C12") {
        e.v = judgeC12(e.B);
        if (e.v.cls.empty()) e.v = judgeC12(e.A);
    } else {
        e.v = judgeC11(e.A, e.B);
    }
    return e;
}

std::string signatureFor(const Plan& p, const std::string& cls) {
    // stable signature: class + the set of templates left in the minimised program
    std::set<std::string> t;
    for (auto& st : p.prog.main) t.insert(classprog::tplName(st.tpl));
    bool hasDtorErr = t.count("e_dtor_err") > 0;
    bool hasQcycle = t.count("qubit_owner_in_garbage_cycle") > 0;
    if (hasQcycle && (cls == "swept_object_alive" || cls == "output_order_differs_from_gc_never" || cls == "qasm_differs" || cls == "statement_count_differs" || cls == "stderr_differs")) return "qubit_owner_in_garbage_cycle_dies_at_collection";
    std::string s = cls;
    if (hasDtorErr && (cls == "terminate" || cls.rfind("signal:6", 0) == 0 || cls == "raw_cpp_exception")) return "terminate:error_in_user_destructor";
    s += "|";
    bool first = true;
    for (auto& n : t) { if (!first) s += ","; s += n; first = false; }
    if (p.sched.injectErrorAtYield >= 0) s += "|inject";
    return s;
}

Plan generatePlan(uint64_t seed, uint64_t run, const std::string& property, bool allowDtorErr, bool allowQcycle = false) {
    sim::Rng gen(seed, "gen", run), knob(seed, "knob", run), sch(seed, "sched", run);
    Plan p;
    bool edge = property == "C12" ? knob.chance(0.7) : knob.chance(0.15);
    // a fixed share of the batch is generated with the known-finding feature switched off
    bool dtorErr = allowDtorErr && edge && knob.chance(0.25);
    // likewise for the qubit-owner-in-a-garbage-cycle feature (known finding D19): 3 % of C11 programs
    bool qcycle = allowQcycle && property == "C11" && knob.chance(0.03);
    p.prog = classprog::generate(gen, edge, dtorErr, qcycle);
    if (property == "C12" && knob.chance(0.01)) { p.prog.main.clear(); p.prog.speculative = (int)knob.below(4); }
    gcs::Schedule& s = p.sched;
    s.generative = true;
    s.genSeed = sch.next();
    static const int64_t means[] = {0, 50000, 1000000, 10000000, 25000000, 50000000, 200000000};
    s.meanIncNs = means[knob.below(7)];
    if (knob.chance(0.1)) s.jumpAtYield = (int64_t)sch.below(200);
    if (knob.chance(0.1)) s.stallYields = 1 + (int)sch.below(5);
    s.notifyLost = knob.chance(0.3);
    // mid-slice pre-emption of the timer thread at its atomic operations (effective in the ThreadSanitizer flavour only)
    s.preemptSeed = sch.next();
    static const int oneIn[] = {0, 1, 2, 3, 5, 8};
    s.preemptOneIn = oneIn[knob.below(6)];
    s.resumeOneIn = 1 + (int)knob.below(6);
    p.secondExecution = knob.chance(0.12);
    // a program that builds a list of about ten thousand nodes executes some 50 000 statements: with a timer tick (and so a
    // collection over the whole list) at nearly every one of them a sanitizer build needs minutes for it
    for (auto& st : p.prog.main)
        if (st.tpl == classprog::T_E_LONG_CHAIN) { if (s.meanIncNs > 50000) s.meanIncNs = 50000; s.jumpAtYield = -1; }
#ifdef GCS_ATOMIC_SEAM
    // under ThreadSanitizer with the timer pre-empted at its atomic operations such a program needs more than five minutes:
    // the long chain is left to the plain and ASan flavours (what it is there for is native stack depth)
    p.prog.main.erase(std::remove_if(p.prog.main.begin(), p.prog.main.end(), [](const classprog::Stmt& st) { return st.tpl == classprog::T_E_LONG_CHAIN; }), p.prog.main.end());
#endif
    return p;
}

// One simulated run: generate, execute, judge, shrink on violation.
bool g_allowQcycle = false;
void runOne(const sim::Options& opt, uint64_t run, sim::RunReport& rep, bool allowDtorErr) {
    Plan p = generatePlan(opt.seed, run, opt.property, allowDtorErr, g_allowQcycle);
    sim::Rng fault(opt.seed, "fault", run), knob2(opt.seed, "knob2", run);
    std::string src = classprog::render(p.prog);

    // dry baseline without injection to learn the number of yields
    Outcome dry = execute(src, baselineOf(gcs::Schedule{}));
    if (dry.status == 9 && p.prog.speculative >= 0) { rep.count("speculative_program_rejected_by_front_end"); return; }
    if (p.prog.speculative >= 0) rep.count("speculative_program_accepted");
    if (dry.status == 9) {
        rep.count("harness.rejected_program");
        fprintf(stderr, "rejected program (run %llu): %s\n", (unsigned long long)run, dry.message.c_str());
        return;
    }
    double injectShare = opt.property == "C12" ? 0.5 : 0.33;
    if (dry.yields > 0 && knob2.chance(injectShare)) p.sched.injectErrorAtYield = (int64_t)fault.below(dry.yields);
    // the run may also be ended by an exception that is not a BlochError (C11 only: for C12 such an ending would be judged)
    if (opt.property == "C11" && p.sched.injectErrorAtYield >= 0 && run % 5 == 4) p.sched.injectKind = 1;
    // burst modes: explicit single tick / few ticks
    int burst = (int)knob2.below(10);
    if (burst < 2 && dry.yields > 0) {
        p.sched.generative = false;
        p.sched.ticks.clear();
        int n = burst == 0 ? 1 : 1 + (int)fault.below(4);
        for (int i = 0; i < n; ++i) p.sched.ticks.push_back((uint32_t)fault.below(dry.yields));
        std::sort(p.sched.ticks.begin(), p.sched.ticks.end());
        p.sched.ticks.erase(std::unique(p.sched.ticks.begin(), p.sched.ticks.end()), p.sched.ticks.end());
    }

    Evaluation e = evaluate(p, opt.property);
    const Outcome& B = e.B;
    rep.count("runs");
    rep.count("yields", B.yields);
    rep.count("gc.ticks_delivered", B.stats.ticksDelivered);
    rep.count("gc.collections", B.collections);
    rep.count("gc.collections_with_garbage", B.collectionsWithGarbage);
    rep.count("gc.collected_with_pending_temp", B.collectionsWithPendingTemp);
    rep.count("gc.notify_lost", B.stats.notifyLost);
    rep.count("gc.notify_delivered", B.stats.notifyDelivered);
    rep.count("gc.join_timeouts", B.stats.joinTimeouts);
    rep.count("gc.timer_parked_mid_slice", B.stats.midSliceParks);
    rep.count("gc.timer_resumed_mid_slice", B.stats.midSliceResumes);
    rep.count("gc.notify_while_timer_mid_slice", B.stats.notifyWhileMidSlice);
    rep.count("gc.lock_contended_with_parked_timer", B.stats.contendedLocks);
    rep.count("gc.timer_threads_started", B.stats.threadsStarted + e.A.stats.threadsStarted);
    rep.count("gc.timer_threads_exited", B.stats.threadsExited + e.A.stats.threadsExited);
    if (p.sched.injectErrorAtYield >= 0) rep.count("fault.error_injected");
    if (p.sched.injectErrorAtYield >= 0 && p.sched.injectKind == 1) rep.count("fault.non_bloch_exception_injected");
    if (B.status == 1) rep.count("end.runtime_error");
    if (B.status == 0) rep.count("end.normal");
    if (p.secondExecution) rep.count("runs_as_second_execution_of_the_parsed_program");
    if (p.sched.jumpAtYield >= 0) rep.count("fault.clock_jump_configured");
    if (p.sched.stallYields > 0) rep.count("fault.stall_configured");
    for (auto& st : p.prog.main) rep.count(std::string("tpl.") + classprog::tplName(st.tpl));
    rep.simTime = (double)(gcs::g_simNowNs.load() - 1000000000LL) * 1e-9;
    sim::Hash h;
    h.add(sim::fnv1a(src));
    h.add(B.evlog.h);
    h.add((uint64_t)p.sched.injectErrorAtYield);
    h.add(B.status);
    h.addStr(B.message);
    for (auto& l : B.echoes) h.addStr(l);
    h.addStr(B.out);
    rep.sig = h.h;
    rep.nontrivial = B.collections > 0 || p.sched.injectErrorAtYield >= 0;
    if (run < 64) {
        Json s = Json::object();
        Json names = Json::array();
        for (auto& st : p.prog.main) names.push(classprog::tplName(st.tpl));
        s.set("run", Json((unsigned long long)run)).set("main_templates", names).set("schedule", schedToJson(p.sched)).set("yields", Json((unsigned long long)B.yields)).set("ticks_delivered_at", Json::arrayOf(std::vector<unsigned>(B.tickYields.begin(), B.tickYields.end())))
            .set("collections", Json((unsigned long long)B.collections)).set("end", B.status == 0 ? "normal" : "runtime error");
        rep.sample = s.dump();
    }
    if (e.v.cls.empty()) return;

    // ---- violation: make the schedule explicit, check determinism, shrink ----
    std::string cls = e.v.cls;
    Plan cur = p;
    if (cur.sched.generative) {
        Plan ex = cur;
        ex.sched.generative = false;
        ex.sched.ticks = B.tickYields;
        ex.sched.jumpAtYield = -1;
        ex.sched.stallYields = 0;
        Evaluation e2 = evaluate(ex, opt.property);
        if (e2.v.cls == cls) cur = ex;  // explicit form reproduces
    }
    int budget = 300;
    auto failsWith = [&](const Plan& cand) {
        Evaluation c = evaluate(cand, opt.property);
        return !c.rejected && c.v.cls == cls;
    };
    // 1. drop main statements; yields shift, so candidates are tried with a tick at every yield or the
    //    generative schedule as well as the explicit one
    {
        auto tryProgram = [&](const std::vector<classprog::Stmt>& stmts) -> bool {
            Plan cand = cur;
            cand.prog.main = stmts;
            if (failsWith(cand)) { cur = cand; return true; }
            // every-yield schedule
            Plan all = cand;
            all.sched.generative = true;
            all.sched.meanIncNs = 200000000;
            all.sched.jumpAtYield = -1;
            all.sched.stallYields = 0;
            Evaluation c = evaluate(all, opt.property);
            if (!c.rejected && c.v.cls == cls) {
                all.sched.generative = false;
                all.sched.ticks = c.B.tickYields;
                if (failsWith(all)) { cur = all; return true; }
            }
            return false;
        };
        std::function<bool(const std::vector<classprog::Stmt>&)> f = [&](const std::vector<classprog::Stmt>& s) { return tryProgram(s); };
        std::vector<classprog::Stmt> m = sim::ddmin<classprog::Stmt>(cur.prog.main, f, budget);
        (void)m;
    }
    // 2. drop ticks
    if (!cur.sched.generative && !cur.sched.ticks.empty()) {
        std::function<bool(const std::vector<uint32_t>&)> f = [&](const std::vector<uint32_t>& t) {
            Plan cand = cur;
            cand.sched.ticks = t;
            return failsWith(cand);
        };
        auto t = sim::ddmin<uint32_t>(cur.sched.ticks, f, budget);
        cur.sched.ticks = t;
    }
    // 3. drop faults
    if (cur.sched.notifyLost) { Plan c = cur; c.sched.notifyLost = false; if (failsWith(c)) cur = c; }
    if (cur.sched.injectErrorAtYield >= 0) { Plan c = cur; c.sched.injectErrorAtYield = -1; if (failsWith(c)) cur = c; }
    // determinism gate: same plan twice, same class and same event log
    Evaluation g1 = evaluate(cur, opt.property), g2 = evaluate(cur, opt.property);
    sim::Violation v;
    v.cls = cls;
    v.reproducible = g1.v.cls == cls && g2.v.cls == cls && g1.B.evlog.h == g2.B.evlog.h && g1.B.echoes == g2.B.echoes;
    v.detail = g1.v.detail.empty() ? e.v.detail : g1.v.detail;
    v.signature = signatureFor(cur, cls);
    v.plan = planToJson(cur);
    rep.violations.push_back(std::move(v));
    rep.count("violations_raw");
    rep.count("raw_class." + cls);
}

int doReplay(const sim::Options& opt) {
    std::string txt;
    if (!sim::readFile(opt.replay, txt)) { fprintf(stderr, "cannot read %s\n", opt.replay.c_str()); return 2; }
    Json file;
    if (!Json::parse(txt, file)) { fprintf(stderr, "bad json in %s\n", opt.replay.c_str()); return 2; }
    const Json& pj = file.has("plan") ? file.at("plan") : file;
    Plan p = planFromJson(pj);
    std::string src = classprog::render(p.prog);
    if (pj.has("source_text") && pj.at("source_text").asStr() != src) {
        fprintf(stderr, "renderer drift: source_text in replay file differs from re-rendered program; refusing\n");
        return 2;
    }
    std::string property = opt.property.empty() ? file.at("engine_property").asStr() : opt.property;
    Evaluation e = evaluate(p, property);
    if (e.rejected) { printf("REPLAY rejected %s\n", e.v.detail.c_str()); return 2; }
    if (e.v.cls.empty()) { printf("REPLAY ok\n"); return 0; }
    printf("REPLAY violation class=%s signature=%s\n  %s\n", e.v.cls.c_str(), signatureFor(p, e.v.cls).c_str(), e.v.detail.c_str());
    return 1;
}

// Shrinks a crashing plan in the parent by re-executing candidates in fresh processes.
Plan shrinkCrash(const sim::Options& opt, Plan p, const std::string& cls, int budget) {
    std::string tmp = sim::replayPath(opt, 0, "-shrink-tmp");
    double shrinkUntil = sim::wallNow() + 150;   // replays of a plan that hangs or blocks cost minutes each: shrinking stops, the plan stays as it is
    auto crashes = [&](const Plan& cand) {
        if (sim::wallNow() > shrinkUntil) return false;
        Json f = Json::object();
        f.set("engine_property", opt.property).set("plan", planToJson(cand));
        sim::writeFile(tmp, f.dump());
        sim::ChildResult r = sim::execReplay(opt, tmp);
        return sim::classifyCrash(r.status, r.err) == cls;
    };
    std::function<bool(const std::vector<classprog::Stmt>&)> f = [&](const std::vector<classprog::Stmt>& s) {
        Plan cand = p;
        cand.prog.main = s;
        if (crashes(cand)) { p = cand; return true; }
        return false;
    };
    sim::ddmin<classprog::Stmt>(p.prog.main, f, budget);
    if (p.sched.injectErrorAtYield >= 0) { Plan c = p; c.sched.injectErrorAtYield = -1; if (budget-- > 0 && crashes(c)) p = c; }
    if (p.sched.notifyLost) { Plan c = p; c.sched.notifyLost = false; if (budget-- > 0 && crashes(c)) p = c; }
    if (p.sched.generative && p.sched.meanIncNs != 0) { Plan c = p; c.sched.meanIncNs = 0; c.sched.jumpAtYield = -1; if (budget-- > 0 && crashes(c)) p = c; }
    unlink(tmp.c_str());
    return p;
}

}  // namespace

int main(int argc, char** argv) {
    sim::Options opt = sim::parseOptions(argc, argv);
    if (opt.flavour == "plain") opt.flavour = VERIF_FLAVOUR;
    if (opt.property.empty()) opt.property = "C11";
    if (!opt.replay.empty()) return doReplay(opt);

    if (opt.mode == "dump") {
        // debugging aid: print the program and schedule of one run index and how its baseline ends
        Plan p = generatePlan(opt.seed, (uint64_t)opt.runs, opt.property, true);
        std::string src = classprog::render(p.prog);
        printf("%s\n--- schedule: %s\n", src.c_str(), schedToJson(p.sched).dump().c_str());
        Outcome d = execute(src, baselineOf(gcs::Schedule{}));
        printf("--- baseline status=%d yields=%llu message=%s\n", d.status, (unsigned long long)d.yields, d.message.c_str());
        for (auto& l : d.echoes) printf("echo: %s\n", l.c_str());
        printf("out: %s\n", d.out.c_str());
        gcs::Schedule all;
        all.generative = true;
        all.meanIncNs = 200000000;
        Outcome b = execute(src, all);
        printf("--- every-yield: status=%d yields=%llu ticks=%llu collections=%llu started=%llu exited=%llu waits=%llu notifyDelivered=%llu invariant=%s\n", b.status, (unsigned long long)b.yields, (unsigned long long)b.stats.ticksDelivered,
               (unsigned long long)b.collections, (unsigned long long)b.stats.threadsStarted, (unsigned long long)b.stats.threadsExited, (unsigned long long)gcs::g_waits.load(), (unsigned long long)b.stats.notifyDelivered, b.invariant.c_str());
        return 0;
    }
    sim::KnownFindings kf;
    kf.load(opt.knownFile);
    bool allowDtorErr = true;   // errors inside user destructors are ordinary runtime errors since fix D13
    g_allowQcycle = opt.property == "C11" && kf.match("C11", "qubit_owner_in_garbage_cycle_dies_at_collection") != nullptr;

    bool thorough = opt.tier == "thorough";
    uint64_t nRuns;
    double cap;
    std::string fl = opt.flavour;
    if (fl == "asan") { nRuns = thorough ? 80000 : 3000; cap = thorough ? 420 : 40; if (opt.workers > 8) opt.workers = 8; }
    else if (fl == "tsan") { nRuns = thorough ? 60000 : 2500; cap = thorough ? 420 : 40; if (opt.workers > 8) opt.workers = 8; if (opt.property == "C12") { nRuns = thorough ? 30000 : 1500; cap = thorough ? 300 : 30; } }
    else { nRuns = thorough ? 800000 : 16000; cap = thorough ? 480 : 40; }
    if (opt.runs > 0) nRuns = (uint64_t)opt.runs;
    if (opt.wallCap > 0) cap = opt.wallCap;

    printf("gcsim property=%s tier=%s flavour=%s VERIF_SEED=%llu runs=%llu workers=%d\n", opt.property.c_str(), opt.tier.c_str(), fl.c_str(), (unsigned long long)opt.seed, (unsigned long long)nRuns, opt.workers);
    fflush(stdout);

    sim::RunFn fn = [&](uint64_t run, sim::RunReport& rep) { runOne(opt, run, rep, allowDtorErr); };

    if (opt.selftestDeterminism) {
        g_allowQcycle = false;
        allowDtorErr = false;  // a crashing worker loses its unflushed signatures; keep crashes out of this comparison
        // same run indices twice, different worker counts: per-run signatures must agree
        sim::Options o1 = opt, o2 = opt;
        o1.workers = 1 + (int)(opt.seed % 3);
        o2.workers = opt.workers;
        uint64_t n = opt.runs > 0 ? (uint64_t)opt.runs : 600;
        sim::BatchResult a = sim::runBatch(o1, n, fn, 0), b = sim::runBatch(o2, n, fn, 0);
        bool same = a.hashOfAll == b.hashOfAll && a.runs == b.runs && a.counters == b.counters;
        printf("determinism: runs=%llu hashA=%016llx hashB=%016llx workers=%d/%d %s\n", (unsigned long long)a.runs, (unsigned long long)a.hashOfAll, (unsigned long long)b.hashOfAll, o1.workers, o2.workers, same ? "SAME" : "DIFFERENT");
        return same ? 0 : 2;
    }

    sim::BatchResult R = sim::runBatch(opt, nRuns, fn, cap);

    // crashes (signals, sanitizer reports, terminate): regenerate the plan, confirm in a fresh process, shrink
    std::vector<std::string> crashLines;
    int exitCode = 0;
    uint64_t crashViolations = 0, knownCrashHits = 0;
    std::set<std::string> seenCrashSig;
    int crashesExamined = 0;
    for (auto& c : R.crashes) {
        if (crashViolations >= 5 || ++crashesExamined > 12) break;   // every crash costs replays in fresh processes (a blocked run: the watchdog's patience each)
        std::string cls = sim::classifyCrash(c.status, c.stderrTail);
        if (cls.empty()) cls = "worker_died";
        Plan p = generatePlan(opt.seed, c.run, opt.property, allowDtorErr, g_allowQcycle);
        // the worker may have died in any of the executions of that run; try the variants it would have used
        std::vector<Plan> variants;
        {
            sim::Rng fault(opt.seed, "fault", c.run), knob2(opt.seed, "knob2", c.run);
            variants.push_back(p);
            // same derivation as runOne needs the dry run's yield count: recompute in a child
            Plan q = p;
            sim::ChildResult dr = sim::runInChild([&]() { Outcome d = execute(classprog::render(p.prog), baselineOf(gcs::Schedule{})); return std::to_string(d.status == 9 ? 0 : d.yields); });
            uint64_t yields = strtoull(dr.out.c_str(), nullptr, 10);
            double injectShare = opt.property == "C12" ? 0.5 : 0.33;
            if (yields > 0 && knob2.chance(injectShare)) q.sched.injectErrorAtYield = (int64_t)fault.below(yields);
            if (opt.property == "C11" && q.sched.injectErrorAtYield >= 0 && c.run % 5 == 4) q.sched.injectKind = 1;
            int burst = (int)knob2.below(10);
            if (burst < 2 && yields > 0) {
                q.sched.generative = false;
                q.sched.ticks.clear();
                int n = burst == 0 ? 1 : 1 + (int)fault.below(4);
                for (int i = 0; i < n; ++i) q.sched.ticks.push_back((uint32_t)fault.below(yields));
                std::sort(q.sched.ticks.begin(), q.sched.ticks.end());
                q.sched.ticks.erase(std::unique(q.sched.ticks.begin(), q.sched.ticks.end()), q.sched.ticks.end());
            }
            variants.insert(variants.begin(), q);
        }
        bool confirmed = false;
        for (auto& cand : variants) {
            std::string path = sim::replayPath(opt, c.run);
            Json f = Json::object();
            f.set("engine_property", opt.property).set("seed", Json((unsigned long long)opt.seed)).set("run", Json((unsigned long long)c.run)).set("flavour", fl).set("plan", planToJson(cand));
            sim::writeFile(path, f.dump(1) + "\n");
            sim::ChildResult r = sim::execReplay(opt, path);
            std::string cls2 = sim::classifyCrash(r.status, r.err);
            if (cls2.empty()) continue;
            cls = cls2;
            bool alreadyKnown = kf.match(opt.property, signatureFor(cand, cls)) != nullptr && seenCrashSig.count(signatureFor(cand, cls));
            Plan minimal = alreadyKnown ? cand : shrinkCrash(opt, cand, cls, cls == "timer_thread_blocked_forever" ? 6 : 40);   // a blocked run costs the watchdog's patience each time
            std::string sig = signatureFor(minimal, cls);
            f.set("plan", planToJson(minimal));
            f.set("violation", Json::object().set("class", cls).set("signature", sig).set("detail", r.err.substr(0, 3000)));
            sim::writeFile(path, f.dump(1) + "\n");
            sim::ChildResult r2 = sim::execReplay(opt, path);
            if (sim::classifyCrash(r2.status, r2.err) != cls) continue;
            confirmed = true;
            if (seenCrashSig.count(sig)) break;
            seenCrashSig.insert(sig);
            if (auto* e = kf.match(opt.property, sig)) {
                crashLines.push_back("KNOWN-FINDING: property=" + opt.property + " " + e->description);
                knownCrashHits++;
                unlink(path.c_str());
            } else if (crashViolations < 5) {
                crashViolations++;
                crashLines.push_back("VIOLATION property=" + opt.property + " replay=" + path);
                crashLines.push_back("  class=" + cls + " signature=" + sig);
            }
            break;
        }
        if (!confirmed) {
            fprintf(stderr, "HARNESS: worker died in run %llu (%s) but no variant of the plan reproduced it in a fresh process\n%s\n", (unsigned long long)c.run, cls.c_str(), c.stderrTail.substr(0, 2000).c_str());
            exitCode = 2;
        }
    }

    sim::CheckSummary S = sim::gateViolations(opt, R);
    for (auto& l : crashLines) S.lines.push_back(l);
    if (crashViolations > 0) S.exitCode = 1;
    if (exitCode == 2 && S.exitCode == 0) S.exitCode = 2;
    S.violations += crashViolations;
    S.knownHits += knownCrashHits;

    // vacuity guard
    std::vector<std::string> mandatory = {"yields", "gc.ticks_delivered", "gc.collections", "gc.collections_with_garbage", "gc.collected_with_pending_temp", "fault.error_injected", "gc.notify_lost", "gc.timer_threads_exited"};
#ifdef GCS_ATOMIC_SEAM
    mandatory.push_back("gc.timer_parked_mid_slice");
    if (opt.property == "C11") mandatory.push_back("gc.notify_while_timer_mid_slice");
#endif
    std::vector<std::string> stuck;
    for (auto& m : mandatory)
        if (R.counters[m] == 0) stuck.push_back(m);
    if (!stuck.empty() && R.runs >= 200) {
        fprintf(stderr, "HARNESS: mandatory reach counters at zero:");
        for (auto& s : stuck) fprintf(stderr, " %s", s.c_str());
        fprintf(stderr, "\n");
        S.exitCode = S.exitCode == 1 ? 1 : 2;
    }
    if (R.counters["harness.rejected_program"] > 0) {
        fprintf(stderr, "HARNESS: %llu generated programs were rejected by the front end\n", (unsigned long long)R.counters["harness.rejected_program"]);
        if (S.exitCode == 0) S.exitCode = 2;
    }

    Json ev = sim::evidenceSkeleton(opt, R,
                                    "one run = one generated class program (templates that put fresh objects into in-flight positions) executed under the collector-never baseline and under one simulated timer schedule (clock increments per statement boundary, lost/delivered stop notification, optional injected runtime error at a statement boundary); non-trivial = at least one collection ran on a non-empty heap or an error was injected; distinct = distinct hash of (program text, yields at which collections ran, live-object counts, injection point, output)",
                                    S.violations);
    Json& cov = const_cast<Json&>(ev.at("coverage"));
    cov.set("flavour", fl);
    cov.set("faults_fired", Json::object()
                                .set("timer_tick_delivered", Json((unsigned long long)R.counters["gc.ticks_delivered"]))
                                .set("stop_notification_lost", Json((unsigned long long)R.counters["gc.notify_lost"]))
                                .set("runtime_error_injected", Json((unsigned long long)R.counters["fault.error_injected"]))
                                .set("join_through_simulated_timeout", Json((unsigned long long)R.counters["gc.join_timeouts"]))
                                .set("clock_jump_configured", Json((unsigned long long)R.counters["fault.clock_jump_configured"]))
                                .set("stalled_timer_configured", Json((unsigned long long)R.counters["fault.stall_configured"]))
                                .set("timer_thread_parked_mid_slice_after_an_atomic_operation", Json((unsigned long long)R.counters["gc.timer_parked_mid_slice"]))
                                .set("stop_notified_while_timer_not_waiting", Json((unsigned long long)R.counters["gc.notify_while_timer_mid_slice"])));
    cov.set("components", Json::object()
                              .set("real", Json::arrayOf(std::vector<std::string>{"lexer", "parser", "semantic analyser", "RuntimeEvaluator (interpreter, collector, teardown)", "GC timer thread (real std::thread, real loop, real deadline arithmetic)", "QasmSimulator"}))
                              .set("stub", Json::arrayOf(std::vector<std::string>{"steady clock (simulated)", "pthread_cond_clockwait / notify_all / join (scheduler-controlled hand-over)", "ThreadSanitizer flavour only: __tsan_atomic* and pthread_mutex_lock pass through a wrapper that may park the timer thread after the operation"})));
    cov.set("known_findings_hit", Json((unsigned long long)S.knownHits));
    cov.set("violation_details", S.details);
    ev.set("assumptions", Json::arrayOf(std::vector<std::string>{
                              "the interpreter observes the timer only through m_gcRequested at statement boundaries, so delivering a tick at yield k is equivalent to the timer firing anywhere between yields k-1 and k",
                              "mid-slice pre-emption of the timer thread exists only in the ThreadSanitizer flavour (atomics are runtime calls there); between two of its atomic operations the timer thread is one step",
                              "generated programs are deterministic (no quantum operations), so any difference from the collector-never baseline is caused by collection",
                              "a clean batch is evidence, not proof: the schedule space is sampled"}));
    sim::writeEvidence(opt, ev);
    sim::printSummary(S);
    printf("gcsim done: runs=%llu distinct=%zu wall=%.1fs violations=%llu known=%llu crashes=%zu exit=%d\n", (unsigned long long)R.runs, R.distinct.size(), R.wall, (unsigned long long)S.violations, (unsigned long long)S.knownHits, R.crashes.size(), S.exitCode);
    return S.exitCode;
}
