// rngreal: the measurement generator as shipped.
//
// Every other engine replaces the simulator's std::mt19937 by the hook engine (H1), so the code
// that seeds, owns and advances the real generator is compiled out there. This engine links
// qasm_simulator.cpp built WITHOUT -DBLOCH_VERIF. The only seam is std::random_device, wrapped at
// link time (-Wl,--wrap=_ZNSt13random_device9_M_getvalEv): it returns a constant during static
// initialisation, so the generator starts every process from the same state. Each run executes in
// a child forked from a worker that has never touched the generator: a run is a pure function of
// its plan.
//
// Oracle (sound for any correct source of independent draws, whatever engine or distribution class
// produces them): successive fresh simulators in one process (what the CLI's shot loop creates)
// must not replay identical outcome sequences, whatever the environment says (CI, BLOCH_OFFLINE,
// ...), and the ones among a few hundred fair or biased coins stay within eight standard
// deviations of the Born expectation.
#include <cmath>
#include <cstdio>
#include <cstdlib>
#include <string>
#include <vector>

#include "bloch/runtime/qasm_simulator.hpp"
#include "sim/core/core.hpp"

using sim::Json;

extern "C" unsigned int __wrap__ZNSt13random_device9_M_getvalEv(void*) { return 0x5eedb10cu; }

namespace {

struct Plan {
    int shots = 3;        // fresh simulators, one after the other
    int coins = 64;       // measurements per shot
    int style = 0;        // 0 measure/reset loop on one qubit; 1 a fresh qubit per coin; 2 partner of an entangled pair after resetting the other half
    int bias = 0;         // 0 fair (h); 1 ry(1.2) p1 = sin^2(0.6)
    int warm = 0;         // draws consumed by an earlier simulator of the same process before the shots start (moves the generator)
    int env = 0;          // 0 none; 1 CI=true; 2 CI= (empty); 3 BLOCH_OFFLINE=1; 4 BLOCH_NO_UPDATE_CHECK=1
};
Json planJson(const Plan& p) { return Json::object().set("engine", "rngreal").set("shots", p.shots).set("coins", p.coins).set("style", p.style).set("bias", p.bias).set("env", p.env).set("warm", p.warm); }
Plan planFrom(const Json& j) {
    Plan p;
    p.shots = (int)j.at("shots").asInt();
    p.coins = (int)j.at("coins").asInt();
    p.style = (int)j.at("style").asInt();
    p.bias = (int)j.at("bias").asInt();
    p.env = (int)j.at("env").asInt();
    p.warm = j.has("warm") ? (int)j.at("warm").asInt() : 0;
    return p;
}
Plan generate(uint64_t seed, uint64_t run) {
    sim::Rng g(seed, "gen", run);
    Plan p;
    p.shots = g.range(2, 6);
    static const int coins[] = {64, 64, 128, 128};
    p.coins = coins[g.below(4)];
    p.style = (int)g.below(3);
    p.bias = (int)g.below(2);
    p.env = (int)g.below(5);
    p.warm = (int)g.below(3000);
    return p;
}

struct Verdict { std::string cls, detail; };

// runs in a forked child; returns "" or "class\tdetail"
std::string runPlan(const Plan& p) {
    unsetenv("CI");
    unsetenv("BLOCH_OFFLINE");
    unsetenv("BLOCH_NO_UPDATE_CHECK");
    if (p.env == 1) setenv("CI", "true", 1);
    if (p.env == 2) setenv("CI", "", 1);
    if (p.env == 3) setenv("BLOCH_OFFLINE", "1", 1);
    if (p.env == 4) setenv("BLOCH_NO_UPDATE_CHECK", "1", 1);
    {
        bloch::runtime::QasmSimulator earlier(false);
        int q = earlier.allocateQubit();
        for (int i = 0; i < p.warm; ++i) { earlier.h(q); earlier.measure(q); earlier.reset(q); }
    }
    std::vector<std::string> seqs;
    long ones = 0, total = 0;
    double p1 = p.bias ? std::sin(0.6) * std::sin(0.6) : 0.5;
    for (int s = 0; s < p.shots; ++s) {
        bloch::runtime::QasmSimulator sim(s == p.shots - 1);   // as in the CLI: only the last shot keeps a log
        std::string seq;
        auto prep = [&](int q) { if (p.bias) sim.ry(q, 1.2); else sim.h(q); };
        if (p.style == 0) {
            int q = sim.allocateQubit();
            for (int c = 0; c < p.coins; ++c) {
                prep(q);
                int b = sim.measure(q);
                seq.push_back(b ? '1' : '0');
                sim.reset(q);
            }
        } else if (p.style == 1) {
            int used = 0;
            int q = sim.allocateQubit();
            for (int c = 0; c < p.coins; ++c) {
                if (used == 6) { sim.reset(q); used = 0; }   // keep the register small: recycle by reset
                prep(q);
                int b = sim.measure(q);
                seq.push_back(b ? '1' : '0');
                sim.reset(q);
                ++used;
            }
        } else {
            int a = sim.allocateQubit(), b = sim.allocateQubit();
            for (int c = 0; c < p.coins; ++c) {
                prep(a);
                sim.cx(a, b);
                sim.reset(a);            // samples a branch: the partner is left in |0> or |1> with the Born weights
                int r = sim.measure(b);
                seq.push_back(r ? '1' : '0');
                sim.reset(b);
            }
        }
        for (char c : seq) { ones += c == '1'; ++total; }
        seqs.push_back(seq);
    }
    for (size_t i = 0; i < seqs.size(); ++i)
        for (size_t j = i + 1; j < seqs.size(); ++j)
            if (seqs[i] == seqs[j])
                return "shots_replay_identical_draws\tfresh simulators " + std::to_string(i) + " and " + std::to_string(j) + " of one process returned the same " + std::to_string(p.coins) + " outcomes (" + seqs[i].substr(0, 32) + "...): the generator was rewound or re-created between them";
    double mean = (double)total * p1, sd = std::sqrt((double)total * p1 * (1 - p1));
    if (std::fabs((double)ones - mean) > 8 * sd)
        return "outcome_frequency_implausible\t" + std::to_string(ones) + " ones among " + std::to_string(total) + " coins with p1=" + std::to_string(p1) + " (expected " + std::to_string(mean) + " +- " + std::to_string(sd) + ")";
    return "";
}

Verdict evaluate(const Plan& p) {
    sim::ChildResult r = sim::runInChild([&]() { return runPlan(p); });
    if (!r.exitedOk()) return {"simulator_crashed", r.describe() + " " + sim::classifyCrash(r.status, r.err)};
    if (r.out.empty()) return {};
    size_t t = r.out.find('\t');
    return {r.out.substr(0, t), t == std::string::npos ? "" : r.out.substr(t + 1)};
}

void runOne(const sim::Options& opt, uint64_t run, sim::RunReport& rep) {
    Plan p = generate(opt.seed, run);
    rep.count("runs");
    rep.count("fresh_simulators", (uint64_t)p.shots);
    rep.count("draws_from_the_shipped_generator", (uint64_t)p.shots * (uint64_t)p.coins * (p.style == 2 ? 2 : 1));
    static const char* envName[] = {"env.none", "env.CI_true", "env.CI_empty", "env.BLOCH_OFFLINE", "env.BLOCH_NO_UPDATE_CHECK"};
    rep.count(envName[p.env]);
    if (p.style == 2) rep.count("reset_branch_draws_checked_through_partner");
    Verdict v = evaluate(p);
    sim::Hash h;
    h.add((uint64_t)p.shots * 1000 + (uint64_t)p.coins);
    h.add((uint64_t)p.style * 100 + (uint64_t)p.bias * 10 + (uint64_t)p.env + 1000 * (uint64_t)p.warm);
    h.addStr(v.cls);
    rep.sig = h.h;
    rep.nontrivial = true;
    if (v.cls.empty()) return;
    // shrink: fewer shots, no environment
    Plan cur = p;
    { Plan c = cur; c.env = 0; if (evaluate(c).cls == v.cls) cur = c; }
    while (cur.shots > 2) { Plan c = cur; c.shots--; if (evaluate(c).cls == v.cls) cur = c; else break; }
    Verdict a = evaluate(cur), b = evaluate(cur);
    sim::Violation vio;
    vio.cls = v.cls;
    vio.signature = "rng:" + v.cls;
    vio.detail = a.detail.empty() ? v.detail : a.detail;
    vio.reproducible = a.cls == v.cls && b.cls == v.cls && a.detail == b.detail;
    vio.plan = planJson(cur);
    rep.violations.push_back(std::move(vio));
}

int doReplay(const sim::Options& opt) {
    std::string txt;
    Json file;
    if (!sim::readFile(opt.replay, txt) || !Json::parse(txt, file)) { fprintf(stderr, "cannot read %s\n", opt.replay.c_str()); return 2; }
    Plan p = planFrom(file.has("plan") ? file.at("plan") : file);
    Verdict v = evaluate(p);
    if (v.cls.empty()) { printf("REPLAY ok\n"); return 0; }
    printf("REPLAY violation class=%s\n  %s\n", v.cls.c_str(), v.detail.c_str());
    return 1;
}

}  // namespace

int main(int argc, char** argv) {
    sim::Options opt = sim::parseOptions(argc, argv);
    if (opt.property.empty()) opt.property = "C02";
    if (!opt.replay.empty()) return doReplay(opt);
    bool thorough = opt.tier == "thorough";
    uint64_t nRuns = thorough ? 40000 : 1200;
    double cap = thorough ? 300 : 30;
    if (opt.runs > 0) nRuns = (uint64_t)opt.runs;
    if (opt.wallCap > 0) cap = opt.wallCap;
    printf("rngreal property=%s tier=%s VERIF_SEED=%llu runs=%llu workers=%d\n", opt.property.c_str(), opt.tier.c_str(), (unsigned long long)opt.seed, (unsigned long long)nRuns, opt.workers);
    fflush(stdout);
    sim::RunFn fn = [&](uint64_t run, sim::RunReport& rep) { runOne(opt, run, rep); };
    if (opt.selftestDeterminism) {
        sim::Options o1 = opt;
        o1.workers = 1 + (int)(opt.seed % 3);
        uint64_t n = opt.runs > 0 ? (uint64_t)opt.runs : 400;
        sim::BatchResult a = sim::runBatch(o1, n, fn, 0), b = sim::runBatch(opt, n, fn, 0);
        bool same = a.hashOfAll == b.hashOfAll && a.runs == b.runs && a.counters == b.counters;
        printf("determinism: runs=%llu hashA=%016llx hashB=%016llx %s\n", (unsigned long long)a.runs, (unsigned long long)a.hashOfAll, (unsigned long long)b.hashOfAll, same ? "SAME" : "DIFFERENT");
        return same ? 0 : 2;
    }
    sim::BatchResult R = sim::runBatch(opt, nRuns, fn, cap);
    sim::CheckSummary S = sim::gateViolations(opt, R);
    for (auto& c : R.crashes) {
        fprintf(stderr, "HARNESS: worker died in run %llu: %s\n%s\n", (unsigned long long)c.run, sim::classifyCrash(c.status, c.stderrTail).c_str(), c.stderrTail.substr(0, 1500).c_str());
        if (S.exitCode == 0) S.exitCode = 2;
    }
    for (const char* m : {"fresh_simulators", "env.CI_true", "reset_branch_draws_checked_through_partner"})
        if (R.runs >= 100 && R.counters[m] == 0) { fprintf(stderr, "HARNESS: mandatory reach counter %s is zero\n", m); if (S.exitCode == 0) S.exitCode = 2; }
    Json ev = sim::evidenceSkeleton(opt, R,
                                    "one run = 2-6 fresh QasmSimulator objects created one after the other in one process (what the CLI's shot loop does), each measuring 64-128 fair or biased coins (measure/reset loop, recycled qubit, or the partner of an entangled pair whose other half is reset), under one of five environments (none, CI=true, CI empty, BLOCH_OFFLINE, BLOCH_NO_UPDATE_CHECK); the simulator is compiled WITHOUT the verification hook, so its own std::mt19937, seeding and distributions run; the only seam is std::random_device (constant), each run executes in a child forked from a worker that never touched the generator; non-trivial = every run; distinct = distinct plan",
                                    S.violations);
    Json& cov = const_cast<Json&>(ev.at("coverage"));
    cov.set("flavour", "real");
    cov.set("faults_fired", Json::object().set("environment_CI_true", Json((unsigned long long)R.counters["env.CI_true"])).set("environment_CI_empty", Json((unsigned long long)R.counters["env.CI_empty"])).set("environment_BLOCH_OFFLINE", Json((unsigned long long)R.counters["env.BLOCH_OFFLINE"])).set("environment_BLOCH_NO_UPDATE_CHECK", Json((unsigned long long)R.counters["env.BLOCH_NO_UPDATE_CHECK"])));
    cov.set("components", Json::object().set("real", Json::arrayOf(std::vector<std::string>{"QasmSimulator with its shipped std::mt19937 and std::uniform_real_distribution (no BLOCH_VERIF)"})).set("stub", Json::arrayOf(std::vector<std::string>{"std::random_device (returns a constant, so the generator starts every process from the same state)"})));
    cov.set("known_findings_hit", Json((unsigned long long)S.knownHits));
    cov.set("violation_details", S.details);
    ev.set("assumptions", Json::arrayOf(std::vector<std::string>{"judges only what any correct source of independent draws satisfies: no two fresh simulators of one process replay the same outcomes, frequencies within eight standard deviations; it does not assume std::mt19937 or a draw order",
                                                                 "false-alarm probability per run below 1e-14 (two identical sequences of 64 coins by chance: 2^-64 fair, 0.565^64 = 1e-16 at p1 = 0.32, per pair; 8 sigma: 1e-15)"}));
    sim::writeEvidence(opt, ev);
    sim::printSummary(S);
    printf("rngreal done: runs=%llu distinct=%zu wall=%.1fs violations=%llu exit=%d\n", (unsigned long long)R.runs, R.distinct.size(), R.wall, (unsigned long long)S.violations, S.exitCode);
    return S.exitCode;
}
