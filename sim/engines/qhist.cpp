// Engine qhist: quantum histories (C02 Born rule/collapse, C03 unit state + distinct handles,
// C04 reset locality, C05 emitted OpenQASM replays, C06 measured-qubit guard).
//
// Real code: QasmSimulator, RuntimeEvaluator (+ its GC timer thread under the gcsched scheduler),
// lexer/parser/analyser, cli::run for the .qasm file clause. Simulated: every 32-bit word behind a
// measurement/reset draw (hook H1), the steady clock, the timer hand-over.
#include <unistd.h>

#include <fstream>
#include <iostream>
#include <sstream>

#include "bloch/cli/cli.hpp"
#include "bloch/compiler/lexer/lexer.hpp"
#include "bloch/compiler/parser/parser.hpp"
#include "bloch/compiler/semantics/semantic_analyser.hpp"
#include "bloch/runtime/qasm_simulator.hpp"
#include "bloch/runtime/runtime_evaluator.hpp"
#include "bloch/update/update_manager.hpp"
#include <clocale>
#include "sim/core/core.hpp"
#include "sim/gen/qhistory.hpp"
#include "sim/models/statevec.hpp"
#include "sim/seams/gcsched.hpp"
#include "sim/seams/rngscript.hpp"

using namespace bloch;
using sim::Json;
using refq::cplx;
using refq::SV;

#ifndef VERIF_FLAVOUR
#define VERIF_FLAVOUR "plain"
#endif

// stub: the updater is not part of this engine
namespace bloch::update {
void checkForUpdatesIfDue(const std::string&) {}
bool performSelfUpdate(const std::string&, const std::string&) { return false; }
}  // namespace bloch::update

extern "C" {
__attribute__((used)) const char* __asan_default_options() { return "exitcode=77:detect_leaks=0:abort_on_error=0"; }
__attribute__((used)) const char* __tsan_default_options() { return "exitcode=66:halt_on_error=1:report_signal_unsafe=0"; }
}

namespace {

bool g_bigReg = false;   // --mode bigreg: simulator-level histories on 14-16 qubit registers only (run under TSan)
rngs::Provider g_rng;
int g_orientation = -1;   // reset branch orientation of the code under test (calibrated at start-up)

struct CoutCapture {
    std::ostringstream out, err;
    std::streambuf *oldOut, *oldErr;
    CoutCapture() : oldOut(std::cout.rdbuf(out.rdbuf())), oldErr(std::cerr.rdbuf(err.rdbuf())) {}
    ~CoutCapture() { std::cout.rdbuf(oldOut); std::cerr.rdbuf(oldErr); }
};

const std::vector<std::string>& ownedClassesDummy() { static std::vector<std::string> v; return v; }

// ================================================================================================
// simulator level
// ================================================================================================
struct SimOp {
    int kind;  // 0 alloc, 1 gate, 2 cx, 3 measure, 4 reset, 5 touch-measured (guard probe)
    int q = 0, q2 = 0, gate = 0;
    double angle = 0;
    int drawKind = 0;
    uint64_t r64 = 0;
};

Json simOpJson(const SimOp& o) {
    static const char* kn[] = {"alloc", "gate", "cx", "measure", "reset", "guard_probe"};
    Json j = Json::object();
    j.set("op", kn[o.kind]).set("kind", o.kind).set("q", o.q).set("q2", o.q2).set("gate", o.gate).set("angle", o.angle).set("draw", o.drawKind).set("r64", sim::hex64(o.r64));
    return j;
}
SimOp simOpFrom(const Json& j) {
    SimOp o;
    o.kind = (int)j.at("kind").asInt();
    o.q = (int)j.at("q").asInt();
    o.q2 = (int)j.at("q2").asInt();
    o.gate = (int)j.at("gate").asInt();
    o.angle = j.at("angle").asNum();
    o.drawKind = (int)j.at("draw").asInt();
    o.r64 = strtoull(j.at("r64").asStr().c_str(), nullptr, 16);
    return o;
}

std::vector<SimOp> genSimHistory(sim::Rng& g, const std::string& property) {
    std::vector<SimOp> ops;
    int n = 0;
    std::vector<bool> measured;
    int len = g.range(3, 40);
    static const double angles[] = {0, M_PI / 2, -M_PI / 2, M_PI, -M_PI, 2 * M_PI, -2 * M_PI, 1e-9, 1e3, 0.3, 1.1, 2.7, -4.4, 5.9, M_PI / 3, 4 * M_PI, 1e-4, 3e-4, 5e-5, -2e-4, 1e-3, 6e-4, 1e-5, 3e-6};
    int maxQ = g.chance(0.08) ? 12 : 7;
    if (g_bigReg) { maxQ = 14 + (int)g.below(3); len = maxQ + 8 + (int)g.below(10); }
    if (g.chance(0.002)) { maxQ = 17; len = std::min(len, 22); }   // registers large enough for size-dependent code paths   // a few large registers (chunked loops, strides above bit 10)
    double pReset = property == "C04" ? 0.25 : 0.1;
    double pMeasure = property == "C02" ? 0.25 : 0.12;
    for (int i = 0; i < len; ++i) {
        SimOp o{};
        double u = g.unit();
        std::vector<int> act;
        for (int q = 0; q < n; ++q)
            if (!measured[(size_t)q]) act.push_back(q);
        if (n == 0 || (g_bigReg && n < maxQ) || (u < (maxQ > 7 ? 0.3 : 0.12) && n < maxQ)) { o.kind = 0; ops.push_back(o); measured.push_back(false); ++n; continue; }
        if (property == "C06" && g.chance(0.08)) {
            std::vector<int> ms;
            for (int q = 0; q < n; ++q)
                if (measured[(size_t)q]) ms.push_back(q);
            if (!ms.empty()) { o.kind = 5; o.q = ms[g.below(ms.size())]; o.gate = (int)g.below(9); o.q2 = act.empty() ? o.q : act[g.below(act.size())]; ops.push_back(o); continue; }
        }
        if (u < 0.12 + pReset) {
            o.kind = 4;
            o.q = (int)g.below((uint64_t)n);
            if (n > 10 && g.chance(0.5)) { static const int hot[] = {1, 10, 11, 0, 12}; int c = hot[g.below(5)]; o.q = c < n ? c : n - 1; }   // index pairs like 10 then 1
            o.r64 = g.next();
            if (g.chance(0.2)) o.drawKind = 1 + (int)g.below(4);
            measured[(size_t)o.q] = false;
            ops.push_back(o);
            continue;
        }
        if (act.empty()) continue;
        if (u < 0.12 + pReset + pMeasure) {
            o.kind = 3;
            o.q = act[g.below(act.size())];
            o.r64 = g.next();
            if (g.chance(0.25)) o.drawKind = 1 + (int)g.below(4);
            measured[(size_t)o.q] = true;
            ops.push_back(o);
        } else if (u < 0.12 + pReset + pMeasure + 0.22 && act.size() >= 2) {
            o.kind = 2;
            o.q = act[g.below(act.size())];
            o.q2 = act[g.below(act.size())];
            if (o.q == o.q2) continue;
            ops.push_back(o);
        } else {
            o.kind = 1;
            o.q = act[g.below(act.size())];
            o.gate = g.chance(0.4) ? (g.chance(0.5) ? 0 : 5) : (int)g.below(7);
            o.angle = g.chance(0.7) ? angles[g.below(24)] : (g.unit() * 14 - 7);
            ops.push_back(o);
        }
    }
    return ops;
}

struct Finding {
    std::string cls, owner, detail;
};

struct SimStats {
    uint64_t calls = 0, measures = 0, resets = 0, entangledResets = 0, boundaryDraws = 0, ambiguous = 0, guardProbes = 0, guardProbesNotRefused = 0, noiseBranches = 0, bisections = 0;
    sim::Hash h;
};

void applyGateReal(runtime::QasmSimulator& s, int g, int q, double t) {
    switch (g) {
        case 0: s.h(q); break;
        case 1: s.x(q); break;
        case 2: s.y(q); break;
        case 3: s.z(q); break;
        case 4: s.rx(q, t); break;
        case 5: s.ry(q, t); break;
        case 6: s.rz(q, t); break;
    }
}

uint64_t bitsFor(int drawKind, uint64_t r64, double threshold) {
    switch (drawKind) {
        case 1: return 0;
        case 2: return ~0ull;
        case 3: return refq::unitToBits(threshold * (1 - 1e-12) - 1e-15);
        case 4: return refq::unitToBits(threshold * (1 + 1e-12) + 1e-15);
    }
    return r64;
}

// black-box measure of the set of draws for which reset takes the |1> branch (threshold located by bisection)
double resetOneBranchMeasure(const runtime::QasmSimulator& pre, int q, SimStats& st, bool& thresholdLike) {
    auto branchFor = [&](double r) -> int {
        runtime::QasmSimulator c = pre;
        c.m_logOps = false;
        g_rng.clearStaged();
        g_rng.stage64(refq::unitToBits(r));
        c.reset(q);
        g_rng.clearStaged();
        // which branch? compare with pre: if the surviving amplitudes came from the |1> subspace
        size_t bit = size_t{1} << q;
        double fromOne = 0, fromZero = 0;
        for (size_t i = 0; i < c.m_state.size(); ++i) {
            if (i & bit) continue;
            fromZero += std::abs(std::conj(pre.m_state[i]) * c.m_state[i]);
            fromOne += std::abs(std::conj(pre.m_state[i | bit]) * c.m_state[i]);
        }
        (void)fromZero;
        // decide by overlap with the projected branches
        SV a, b;
        a.n = b.n = pre.m_qubits;
        a.a = b.a = pre.m_state;
        double p1 = a.prob1(q) / a.norm2();
        if (p1 < 1e-12) return 0;
        if (1 - p1 < 1e-12) return 1;
        a.resetBranch(q, 0);
        b.resetBranch(q, 1);
        double d0 = refq::maxDiffUpToPhase(a.a, c.m_state), d1 = refq::maxDiffUpToPhase(b.a, c.m_state);
        return d1 < d0 ? 1 : 0;
    };
    int lo = branchFor(0.0), hi = branchFor(std::nextafter(1.0, 0.0));
    thresholdLike = true;
    if (lo == hi) return lo ? 1.0 : 0.0;
    double a = 0, b = 1;
    for (int it = 0; it < 40; ++it) {
        double m = (a + b) / 2;
        ++st.bisections;
        if (branchFor(m) == lo) a = m; else b = m;
    }
    double t = (a + b) / 2;
    return lo == 1 ? t : 1 - t;
}

void runSimHistory(const std::vector<SimOp>& ops, const std::string& property, std::vector<Finding>& out, SimStats& st, bool logOn = true) {
    runtime::QasmSimulator real(logOn);
    SV model;
    std::vector<bool> measured;
    std::vector<int> outcomes;
    std::vector<std::string> predicted;
    g_rng.clearStaged();
    auto push = [&](const std::string& cls, const std::string& owner, const std::string& d) { out.push_back({cls, owner, d}); };
    auto compare = [&](const char* after, const std::string& owner, size_t i) {
        if (real.m_state.size() != (size_t{1} << model.n)) { push("state_size_wrong", "C03", "after op " + std::to_string(i) + " size " + std::to_string(real.m_state.size())); return false; }
        bool fin = true;
        double nrm = 0;
        for (auto& v : real.m_state) { if (!std::isfinite(v.real()) || !std::isfinite(v.imag())) fin = false; nrm += std::norm(v); }
        if (!fin) { push("non_finite_amplitude", "C03", std::string("after ") + after + " (op " + std::to_string(i) + ")"); return false; }
        if (std::fabs(nrm - 1) > 1e-9) { push("norm_not_one", "C03", std::string("after ") + after + " (op " + std::to_string(i) + "): |psi|^2=" + refq::fd(nrm)); return false; }
        double d = refq::maxDiffUpToPhase(model.a, real.m_state);
        if (d > 1e-9) { push(std::string("state_mismatch_after_") + after, owner, "op " + std::to_string(i) + ": distance " + refq::fd(d)); return false; }
        return true;
    };
    for (size_t i = 0; i < ops.size(); ++i) {
        const SimOp& o = ops[i];
        ++st.calls;
        st.h.add((uint64_t)o.kind * 31 + (uint64_t)o.q);
        uint64_t w0 = g_rng.wordsDrawn;
        try {
            if (o.kind == 0) {
                std::vector<cplx> before = real.m_state;
                int idx = real.allocateQubit();
                int midx = model.alloc();
                measured.push_back(false);
                if (idx != midx) { push("alloc_index_unexpected", "C03", "op " + std::to_string(i)); return; }
                // previously allocated qubits keep their state
                bool keep = real.m_state.size() == before.size() * 2;
                for (size_t k = 0; keep && k < before.size(); ++k)
                    if (real.m_state[k] != before[k] || real.m_state[k + before.size()] != cplx(0, 0)) keep = false;
                if (!keep) { push("allocation_disturbs_existing_state", "C03", "op " + std::to_string(i)); return; }
                if (!compare("alloc", "C03", i)) return;
            } else if (o.kind == 1) {
                applyGateReal(real, o.gate, o.q, o.angle);
                model.gate(o.gate, o.q, o.angle);
                char b[64];
                snprintf(b, sizeof b, "%d %d %.17g", o.gate, o.q, o.angle);
                predicted.push_back(std::string("g ") + b);
                if (!compare("gate", "C05", i)) return;
            } else if (o.kind == 2) {
                real.cx(o.q, o.q2);
                model.cx(o.q, o.q2);
                predicted.push_back("cx " + std::to_string(o.q) + " " + std::to_string(o.q2));
                if (!compare("cx", "C05", i)) return;
            } else if (o.kind == 3) {
                ++st.measures;
                double p1 = model.prob1(o.q);
                if (o.drawKind) ++st.boundaryDraws;
                uint64_t bits = bitsFor(o.drawKind, o.r64, p1);
                g_rng.clearStaged();
                g_rng.stage64(bits);
                std::vector<cplx> preState = real.m_state;
                int res = real.measure(o.q);
                uint64_t used = g_rng.wordsDrawn - w0;
                g_rng.clearStaged();
                double pw = res ? p1 : 1 - p1;
                if (res != 0 && res != 1) { push("measure_returned_non_bit", "C02", "op " + std::to_string(i)); return; }
                bool noise = false;
                if (pw < 1e-9) {
                    // exact weight of the returned outcome in the real pre-state
                    double w = 0;
                    size_t bit = size_t{1} << o.q;
                    for (size_t k = 0; k < preState.size(); ++k)
                        if (((k & bit) ? 1 : 0) == res) w += std::norm(preState[k]);
                    if (w == 0.0) { push("zero_probability_outcome", "C02", "op " + std::to_string(i) + ": measure returned " + std::to_string(res) + " although the pre-measurement state has no component with that value (p1=" + refq::fd(p1) + ")"); return; }
                    noise = true;  // rounding-noise branch legitimately selected by a boundary draw
                    ++st.noiseBranches;
                }
                if (noise) {
                    // adopt the real post-state after validating it: finite, unit norm, measured qubit definite
                    double nr = 0;
                    bool fin = true;
                    for (auto& v : real.m_state) { if (!std::isfinite(v.real()) || !std::isfinite(v.imag())) fin = false; nr += std::norm(v); }
                    if (!fin) { push("non_finite_amplitude", "C03", "after measure selecting a low-weight outcome (op " + std::to_string(i) + ")"); return; }
                    if (std::fabs(nr - 1) > 1e-9) { push("norm_not_one", "C03", "after measure selecting a low-weight outcome (op " + std::to_string(i) + "): |psi|^2=" + refq::fd(nr)); return; }
                    model.a = real.m_state;
                    double q1 = model.prob1(o.q);
                    if (std::fabs(q1 - res) > 1e-9) { push("collapsed_state_not_in_outcome_subspace", "C02", "op " + std::to_string(i)); return; }
                    measured[(size_t)o.q] = true;
                    outcomes.push_back(res);
                    predicted.push_back("m " + std::to_string(o.q));
                    continue;
                }
                if (used == 2) {
                    double r = refq::wordsToUnit((uint32_t)bits, (uint32_t)(bits >> 32));
                    if (std::fabs(r - p1) <= 1e-9) ++st.ambiguous;
                    else if ((r < p1 ? 1 : 0) != res) { push("outcome_inconsistent_with_draw", "C02", "op " + std::to_string(i) + ": r=" + refq::fd(r) + " p1=" + refq::fd(p1) + " returned " + std::to_string(res)); return; }
                } else if (used == 0 && p1 > 1e-9 && p1 < 1 - 1e-9) {
                    push("random_choice_without_randomness", "C02", "op " + std::to_string(i));
                    return;
                }
                model.collapse(o.q, res);
                measured[(size_t)o.q] = true;
                outcomes.push_back(res);
                predicted.push_back("m " + std::to_string(o.q));
                if (!compare("measure", "C02", i)) return;

            } else if (o.kind == 4) {
                ++st.resets;
                double nrm = model.norm2(), p1 = model.prob1(o.q) / nrm;
                bool genuine = p1 > 1e-9 && 1 - p1 > 1e-9;
                
                std::vector<cplx> rhoBefore;
                if (model.n >= 2 && model.n <= 5) rhoBefore = refq::reducedWithout(model, o.q);
                bool entangled = genuine;
                if (genuine) {
                    SV t0 = model, t1 = model;
                    t0.resetBranch(o.q, 0);
                    t1.resetBranch(o.q, 1);
                    entangled = refq::maxDiffUpToPhase(t0.a, t1.a) > 1e-6;
                }
                if (entangled) ++st.entangledResets;
                // black-box branch weights (C04): measure of draws that select the |1> branch
                if (property == "C04" && genuine && entangled) {
                    bool thr = true;
                    double mOne = resetOneBranchMeasure(real, o.q, st, thr);
                    if (std::fabs(mOne - p1) > 1e-6) {
                        push("reset_branch_weight_wrong", "C04", "op " + std::to_string(i) + ": |1> branch is selected for a fraction " + refq::fd(mOne) + " of the draws, Born weight is " + refq::fd(p1) + ": averaged over runs the other qubits' reduced state changes");
                        return;
                    }
                }
                if (o.drawKind) ++st.boundaryDraws;
                uint64_t bits = bitsFor(o.drawKind, o.r64, g_orientation == 1 ? 1 - p1 : p1);
                g_rng.clearStaged();
                g_rng.stage64(bits);
                real.reset(o.q);
                uint64_t used = g_rng.wordsDrawn - w0;
                g_rng.clearStaged();
                if (genuine && entangled && used == 0) { push("reset_choice_without_randomness", "C04", "op " + std::to_string(i) + ": target has p1=" + refq::fd(p1) + " but reset consumed no random words"); return; }
                // the post-state must be the |0>-moved normalised projection of one branch
                SV b0 = model, b1 = model;
                double d0 = 1e9, d1 = 1e9;
                bool has0 = 1 - p1 > 0, has1 = p1 > 0;
                if (has0) { b0.resetBranch(o.q, 0); d0 = refq::maxDiffUpToPhase(b0.a, real.m_state); }
                if (has1) { b1.resetBranch(o.q, 1); d1 = refq::maxDiffUpToPhase(b1.a, real.m_state); }
                bool distinguishable = has0 && has1 && refq::maxDiffUpToPhase(b0.a, b1.a) > 1e-6;
                int br = d1 < d0 ? 1 : 0;
                // one branch has rounding-noise weight in the model - possibly exactly zero there while the real state, rounded
                // differently, keeps 1e-33 of it, which a boundary draw (r = 0) then selects
                bool anyTiny = std::min(p1, 1 - p1) <= 1e-9;
                if (std::min(d0, d1) > 1e-9) {
                    bool fin = true;
                    double nr = 0;
                    for (auto& v : real.m_state) { if (!std::isfinite(v.real()) || !std::isfinite(v.imag())) fin = false; nr += std::norm(v); }
                    if (!fin) { push("non_finite_amplitude", "C03", "after reset (op " + std::to_string(i) + ")"); return; }
                    if (std::fabs(nr - 1) > 1e-9) { push("norm_not_one", "C03", "after reset (op " + std::to_string(i) + "): |psi|^2=" + refq::fd(nr)); return; }
                    if (anyTiny) {
                        // a rounding-noise branch was selected: adopt the real state (target must be |0>)
                        ++st.noiseBranches;
                        model.a = real.m_state;
                        if (model.prob1(o.q) > 1e-12) { push("reset_target_not_zero", "C04", "op " + std::to_string(i)); return; }
                        measured[(size_t)o.q] = false;
                        outcomes.push_back(br);
                        predicted.push_back("r " + std::to_string(o.q));
                        continue;
                    }
                    push("reset_post_state_matches_no_branch", "C04", "op " + std::to_string(i) + ": distance to |0>-branch " + refq::fd(d0) + ", to |1>-branch " + refq::fd(d1));
                    return;
                }
                model = br ? b1 : b0;
                if (has0 && has1 && (br ? p1 : 1 - p1) <= 1e-9) ++st.noiseBranches;
                if (model.prob1(o.q) > 1e-12) { push("reset_target_not_zero", "C04", "op " + std::to_string(i)); return; }
                if (genuine && distinguishable && used == 2 && g_orientation >= 0) {
                    double r = refq::wordsToUnit((uint32_t)bits, (uint32_t)(bits >> 32));
                    double thr = g_orientation == 0 ? p1 : 1 - p1;
                    if (std::fabs(r - thr) <= 1e-9) ++st.ambiguous;
                    else {
                        int expectOne = g_orientation == 0 ? (r < p1) : (r >= 1 - p1);
                        if (expectOne != br) { push("reset_branch_inconsistent_with_born_weights", "C04", "op " + std::to_string(i) + ": r=" + refq::fd(r) + " p1=" + refq::fd(p1) + " branch " + std::to_string(br)); return; }
                    }
                }
                if (!distinguishable) br = -1;
                (void)rhoBefore;
                measured[(size_t)o.q] = false;
                outcomes.push_back(br);
                predicted.push_back("r " + std::to_string(o.q));
                if (real.m_measured[(size_t)o.q]) { push("sim_flag_not_cleared_by_reset", "C06", "op " + std::to_string(i)); return; }
                if (!compare("reset", "C04", i)) return;
            } else if (o.kind == 5) {
                // guard probe: every operation on a measured qubit must be refused and leave the state alone
                ++st.guardProbes;
                std::vector<cplx> before = real.m_state;
                bool threw = false;
                try {
                    if (o.gate < 7) applyGateReal(real, o.gate, o.q, 0.3);
                    else if (o.gate == 7) { g_rng.stage64(o.r64); real.measure(o.q); }
                    else if (o.q != o.q2) real.cx(o.q2, o.q);
                    else real.x(o.q);
                } catch (const support::BlochError& e) {
                    threw = e.category == support::ErrorCategory::Runtime;
                }
                g_rng.clearStaged();
                // The property is stated for programs; the simulator's own guard is defence in depth. A simulator
                // that does not refuse is therefore only counted, but a refusal must leave the state alone.
                if (!threw) { ++st.guardProbesNotRefused; real.m_state = before; continue; }
                if (real.m_state != before) { push("refused_operation_changed_state", "C06", "op " + std::to_string(i)); return; }
            }
        } catch (const std::exception& e) {
            push("unexpected_exception_from_simulator", property == "C06" ? "C06" : "C03", "op " + std::to_string(i) + ": " + e.what());
            return;
        }
    }
    // C05: the emitted text replays to the simulator's state
    if (!logOn) return;
    std::string text = real.getQasm();
    refq::QasmProgram P = refq::parseQasm(text);
    if (!P.ok) { push("qasm_not_well_formed", "C05", P.error); return; }
    if (P.qreg != model.n || P.creg != model.n) { push("qasm_register_size_wrong", "C05", "qreg " + std::to_string(P.qreg) + " creg " + std::to_string(P.creg) + " for " + std::to_string(model.n) + " qubits"); return; }
    if (P.ops.size() != predicted.size()) { push("qasm_operation_count_wrong", "C05", std::to_string(P.ops.size()) + " logged, " + std::to_string(predicted.size()) + " performed"); return; }
    {
        size_t k = 0;
        for (size_t i = 0; i < ops.size() && k < P.ops.size(); ++i) {
            const SimOp& o = ops[i];
            const refq::QasmOp& q = P.ops[k];
            bool ok = true;
            if (o.kind == 1) { ok = q.kind == o.gate && q.q0 == o.q && (o.gate < 4 || std::fabs(q.angle - o.angle) <= 5e-7 * std::max(1.0, std::fabs(o.angle))); ++k; }
            else if (o.kind == 2) { ok = q.kind == 7 && q.q0 == o.q && q.q1 == o.q2; ++k; }
            else if (o.kind == 3) { ok = q.kind == 8 && q.q0 == o.q && q.q1 == o.q; ++k; }
            else if (o.kind == 4) { ok = q.kind == 9 && q.q0 == o.q; ++k; }
            if (!ok) { push("qasm_operation_mismatch", "C05", "performed op " + std::to_string(i) + " but logged '" + q.text + "'"); return; }
        }
    }
    SV rep;
    std::string err;
    if (st.noiseBranches > 0) return;  // a rounding-noise outcome cannot be replayed from six-decimal angles
    double minW = 1.0;
    if (!refq::replayQasm(P, outcomes, rep, err, &minW)) { push("qasm_replay_failed", "C05", err); return; }
    int rots = 0;
    for (auto& q : P.ops) if (q.kind >= 4 && q.kind <= 6) ++rots;
    double d = refq::maxDiffUpToPhase(rep.a, real.m_state);
    if (d > 1e-6 * (1 + rots) / std::sqrt(std::max(minW, 1e-12))) { push("qasm_replay_state_differs", "C05", "distance " + refq::fd(d) + " after replaying the emitted text"); return; }
}

// ================================================================================================
// program level
// ================================================================================================
struct ProgRun {
    const qh::Plan* plan = nullptr;
    const qh::Rendered* rendered = nullptr;
    std::unordered_map<const void*, size_t> stmtIndex;   // main statement pointer -> index
    qh::Interp interp;
    int modelPos = 0;          // ops [0, modelPos) are applied to the model
    int currentOp = -1;        // op whose statements are executing
    size_t wordMark = 0;
    std::vector<qh::Finding> findings;
    bool desync = false;
    uint64_t boundaries = 0;
    uint64_t reuseBefore = 0;  // model reuse events before the op that has just been applied
    int deferredAtOp = -1;     // a destructor error is due at the start of this op
    bool degraded = false;     // C06 only: boundary checks switched off after a foreign finding
    uint64_t resyncs = 0;      // lockstep mismatches owned by another property after which the model adopted the observed state
    bool echoOff = false;
    std::vector<bool> prevSimMeasured;   // simulator's measured flags at the previous boundary
    sim::Hash evlog;
    std::string property;
};
ProgRun* g_pr = nullptr;
bool ownsFwd(const std::string& property, const std::string& owner, const std::string& cls);

qh::Observation observe(runtime::RuntimeEvaluator* ev) {
    qh::Observation ob;
    ob.state = ev->m_sim.m_state;
    ob.simQubits = ev->m_sim.m_qubits;
    ob.lastMeasurement = ev->m_lastMeasurement;
    for (auto& q : ev->m_qubits) ob.evalMeasured.push_back(q.measured);
    ob.simMeasured = ev->m_sim.m_measured;
    ob.freeList = ev->m_freeQubitIndices;
    // main's scope is the outermost one that holds q*/r*/o*/p*/b* names
    for (auto& scope : ev->m_env) {
        for (auto& kv : scope) {
            const std::string& n = kv.first;
            const runtime::Value& v = kv.second.value;
            if (n.size() < 2 || !isdigit((unsigned char)n[1])) continue;
            if ((n[0] == 'q' || n[0] == 'a') && v.type == runtime::Value::Type::Qubit) ob.declIndices[n] = {v.qubit};
            else if (n[0] == 'r' && v.type == runtime::Value::Type::QubitArray) ob.declIndices[n] = v.qubitArray;
            else if ((n[0] == 'o' || n[0] == 'p' || n[0] == 't') && v.type == runtime::Value::Type::Object && v.objectValue) {
                std::vector<int> idx;
                for (auto& f : v.objectValue->fields) {
                    if (f.type == runtime::Value::Type::Qubit) idx.push_back(f.qubit);
                    else if (f.type == runtime::Value::Type::QubitArray) idx.insert(idx.end(), f.qubitArray.begin(), f.qubitArray.end());
                }
                ob.declIndices[n] = idx;
            } else if (n[0] == 'b' && v.type == runtime::Value::Type::Bit) ob.bitvars[atoi(n.c_str() + 1)] = v.bitValue;
        }
    }
    auto sq = ev->m_classTable.find("SQ");
    if (sq != ev->m_classTable.end() && !sq->second->staticStorage.empty() && sq->second->staticStorage[0].type == runtime::Value::Type::Qubit) ob.declIndices["SQ.s"] = {sq->second->staticStorage[0].qubit};
    return ob;
}

std::string declName(const qh::DeclInfo& d, size_t id) {
    static const char pre[] = {'q', 'r', 'o', 'p', 'a', 't'};
    return std::string(1, pre[d.kind]) + std::to_string(id);
}

// boundary checks after op `done` (the model has just applied it)
void boundaryChecks(ProgRun& pr, const qh::Observation& ob, int done) {
    auto& I = pr.interp;
    std::vector<int> newlyFlagged;       // simulator qubits whose measured flag was set by the op just completed
    for (size_t x = 0; x < ob.simMeasured.size(); ++x)
        if (ob.simMeasured[x] && !(x < pr.prevSimMeasured.size() && pr.prevSimMeasured[x])) newlyFlagged.push_back((int)x);
    pr.prevSimMeasured = ob.simMeasured;
    if (pr.degraded) return;
    auto push = [&](const std::string& cls, const std::string& owner, const std::string& d) {
        pr.findings.push_back({cls, owner, d});
        // C06 is judged per declaration (which operation is refused, where the run stops), not per simulator index:
        // after a state- or handle-level finding owned by another property the run goes on without these checks.
        if (pr.property == "C06" && !ownsFwd("C06", owner, cls)) pr.degraded = true;
    };
    const qh::Op* last = done >= 0 && done < (int)pr.plan->ops.size() ? &pr.plan->ops[(size_t)done] : nullptr;
    std::string after = last ? qh::kindName(last->kind) : "start";
    // C03: shape, finiteness, norm
    if (ob.state.size() != (size_t{1} << ob.simQubits) || ob.simQubits != I.sv.n) {
        push("state_size_wrong", "C03", "after " + after + " (op " + std::to_string(done) + "): " + std::to_string(ob.state.size()) + " amplitudes, simulator reports " + std::to_string(ob.simQubits) + " qubits, model has " + std::to_string(I.sv.n));
        if (!pr.degraded) pr.desync = true;
        return;
    }
    double nrm = 0;
    bool fin = true;
    for (auto& v : ob.state) { if (!std::isfinite(v.real()) || !std::isfinite(v.imag())) fin = false; nrm += std::norm(v); }
    if (!fin) { push("non_finite_amplitude", "C03", "after " + after + " (op " + std::to_string(done) + ")"); if (!pr.degraded) pr.desync = true; return; }
    if (std::fabs(nrm - 1) > 1e-9) { push("norm_not_one", "C03", "after " + after + " (op " + std::to_string(done) + "): |psi|^2=" + refq::fd(nrm)); if (!pr.degraded) pr.desync = true; return; }
    // lockstep state
    double d = refq::maxDiffUpToPhase(I.sv.a, ob.state);
    if (d > 1e-9) {
        std::string owner = "C05";
        if (last) {
            if (last->kind == qh::MEAS_STMT || last->kind == qh::MEAS_EXPR || last->kind == qh::MEAS_ARR) owner = "C02";
            else if (last->kind == qh::RESET || last->kind == qh::DROP) owner = "C04";
            else if (qh::isDecl(last->kind) || last->kind == qh::CYCLE) owner = I.reuseEvents > pr.reuseBefore ? "C04" : "C03";
        }
        std::string cls = "state_mismatch_after_" + after;
        push(cls, owner, "op " + std::to_string(done) + ": distance " + refq::fd(d) + " between evaluator state and reference model");
        if (ownsFwd(pr.property, owner, cls)) { if (!pr.degraded) pr.desync = true; return; }
        // another property's oracle fired (that property's check reports it). The observed state is a valid unit
        // vector of the right size, so the model adopts it and the run goes on: later operations can still be judged.
        I.sv.a = ob.state;
        ++pr.resyncs;
    }
    // C03: handle map - every live declaration denotes the simulator qubits it was created for
    std::map<int, std::string> owner;
    for (size_t id = 0; id < I.decls.size(); ++id) {
        if (!I.decls[id].alive) continue;
        std::string name = declName(I.decls[id], id);
        auto it = ob.declIndices.find(name);
        if (it == ob.declIndices.end()) { push("declaration_lost", "C03", name + " not found in scope after op " + std::to_string(done)); if (!pr.degraded) pr.desync = true; return; }
        if (it->second != I.declIdx[id]) {
            std::string a, b;
            for (int x : it->second) a += std::to_string(x) + " ";
            for (int x : I.declIdx[id]) b += std::to_string(x) + " ";
            push("handle_denotes_other_qubit", "C03", name + " holds simulator index [" + a + "] but was created for [" + b + "] (after op " + std::to_string(done) + ")");
            if (!pr.degraded) pr.desync = true;
            return;
        }
        if (I.decls[id].kind == 4) continue;  // aliases are judged below
        if (I.decls[id].kind == 5) continue;  // a port names a local's qubit by design
        for (int x : it->second) {
            if (owner.count(x)) { push("two_declarations_share_qubit", "C03", name + " and " + owner[x] + " both hold q[" + std::to_string(x) + "]"); if (!pr.degraded) pr.desync = true; return; }
            owner[x] = name;
            for (int f : ob.freeList)
                if (f == x) { push("live_qubit_on_free_list", "C03", name + " holds q[" + std::to_string(x) + "] which is on the free list"); if (!pr.degraded) pr.desync = true; return; }
        }
    }
    if (I.staticIdx >= 0) {
        auto it = ob.declIndices.find("SQ.s");
        if (it == ob.declIndices.end() || it->second.size() != 1 || it->second[0] != I.staticIdx) { push("handle_denotes_other_qubit", "C03", "static field SQ.s holds " + (it == ob.declIndices.end() ? std::string("nothing") : std::to_string(it->second[0])) + ", created for q[" + std::to_string(I.staticIdx) + "]"); if (!pr.degraded) pr.desync = true; return; }
        if (owner.count(I.staticIdx)) { push("two_declarations_share_qubit", "C03", "SQ.s and " + owner[I.staticIdx] + " both hold q[" + std::to_string(I.staticIdx) + "]"); if (!pr.degraded) pr.desync = true; return; }
        owner[I.staticIdx] = "SQ.s";
    }
    // C03: an operation reaches the simulator qubits its handle denotes and no others: a measurement must not flag
    // (and collapse) a qubit that belongs to another declaration
    if (last && !newlyFlagged.empty()) {
        std::vector<int> allowed;
        if ((last->kind == qh::MEAS_STMT || last->kind == qh::MEAS_EXPR) && (last->h.k == 5 || last->h.decl < (int)I.declIdx.size())) allowed.push_back(I.resolve(last->h));
        else if (last->kind == qh::MEAS_ARR && last->h.decl < (int)I.declIdx.size()) allowed = I.declIdx[(size_t)last->h.decl];
        for (int x : newlyFlagged) {
            if (std::find(allowed.begin(), allowed.end(), x) != allowed.end()) continue;
            std::string a;
            for (int y : allowed) a += std::to_string(y) + " ";
            push("operation_reached_other_qubit_than_its_handle", "C03", "op " + std::to_string(done) + " (" + after + (last->kind >= qh::GATE ? " via " + qh::handleExpr(last->h) : std::string()) + ") denotes simulator qubit(s) [" + a + "] but the simulator measured q[" + std::to_string(x) + "]");
            return;
        }
    }
    // an alias copied from an object's field must not come to share a qubit with another declaration
    for (auto& kv : I.aliasTarget) {
        int x = I.declIdx[(size_t)kv.first][0];
        auto ow = owner.find(x);
        if (ow == owner.end()) continue;
        std::string targetName = declName(I.decls[(size_t)kv.second], (size_t)kv.second);
        if (ow->second != targetName) {
            push("alias_shares_recycled_qubit", "C03", "a" + std::to_string(kv.first) + " was copied from " + targetName + ".q and still holds q[" + std::to_string(x) + "], which now belongs to " + ow->second + " (after op " + std::to_string(done) + ")");
            return;
        }
    }
    {
        std::set<int> fl;
        for (int f : ob.freeList)
            if (!fl.insert(f).second) { push("free_list_duplicate", "C03", "q[" + std::to_string(f) + "] is on the free list twice (after op " + std::to_string(done) + ")"); if (!pr.degraded) pr.desync = true; return; }
    }
    // C06: the two replicas of the measured flag agree with each other and with the model
    for (auto& kv : owner) {
        int x = kv.first;
        bool em = x < (int)ob.evalMeasured.size() && ob.evalMeasured[(size_t)x];
        bool sm = x < (int)ob.simMeasured.size() && ob.simMeasured[(size_t)x];
        bool mm = I.measured[(size_t)x];
        // evaluator flag wrong: its located guard will refuse a legal operation or let an illegal one through;
        // simulator flag set on a qubit that is not measured: the next legal operation is refused (unlocated).
        // A simulator flag that is clear while the qubit is measured is harmless as long as the evaluator's is set.
        if (em != mm || (sm && !mm)) {
            push("measured_flag_replicas_disagree", "C06", kv.second + " q[" + std::to_string(x) + "]: evaluator=" + std::to_string(em) + " simulator=" + std::to_string(sm) + " model=" + std::to_string(mm) + " after op " + std::to_string(done) + " (" + after + ")");
            return;
        }
        // C02: last-measurement record agrees
        int lm = x < (int)ob.lastMeasurement.size() ? ob.lastMeasurement[(size_t)x] : -1;
        if (lm != I.lastMeas[(size_t)x]) {
            push("last_measurement_record_differs", "C02", kv.second + " q[" + std::to_string(x) + "]: evaluator records " + std::to_string(lm) + ", model " + std::to_string(I.lastMeas[(size_t)x]) + " after op " + std::to_string(done));
            return;
        }
    }
}

void progObserver(runtime::RuntimeEvaluator* ev, void* stmt, uint64_t, bool) {
    ProgRun* pr = g_pr;
    if (!pr || pr->desync) return;
    auto it = pr->stmtIndex.find(stmt);
    if (it == pr->stmtIndex.end()) return;
    size_t si = it->second;
    if (!pr->rendered->stmtFirst[si]) return;
    int k = pr->rendered->stmtOp[si];
    // op k-1 (if any) has completed
    qh::Observation ob = observe(ev);
    ob.words.assign(g_rng.history.begin() + (long)pr->wordMark, g_rng.history.end());
    if (k > 0 && pr->modelPos == k - 1) {
        pr->reuseBefore = pr->interp.reuseEvents;
        pr->interp.apply(pr->plan->ops[(size_t)k - 1], k - 1, ob, false, pr->findings);
        pr->modelPos = k;
        if (pr->interp.deferredError) {
            // the destructor's error is re-raised right after this hook returns: the run must end here
            pr->deferredAtOp = k;
            boundaryChecks(*pr, ob, k - 1);
            pr->currentOp = k;
            return;
        }
        if (pr->interp.expectError && pr->interp.nonFiniteAngle) {
            const qh::Op& o = pr->plan->ops[(size_t)k - 1];
            bool fin = true;
            for (auto& v : ob.state) if (!std::isfinite(v.real()) || !std::isfinite(v.imag())) fin = false;
            pr->findings.push_back({"non_finite_amplitude", "C03", "op " + std::to_string(k - 1) + " (" + qh::gateName(o.gate) + " by the computed angle " + qh::angleText(o) + " via " + qh::handleExpr(o.h) + ") was executed and the program went on; state finite afterwards: " + (fin ? "yes" : "no")});
            pr->desync = true;
            return;
        }
        if (pr->interp.expectError) {
            const qh::Op& o = pr->plan->ops[(size_t)k - 1];
            pr->findings.push_back({"measured_qubit_operated_on", "C06", "op " + std::to_string(k - 1) + " (" + qh::kindName(o.kind) + " via " + qh::handleExpr(o.h) + ", path " + std::to_string(o.path) + ") touched a measured qubit (or used one qubit twice in cx) and the program went on"});
            if (o.kind == qh::CX && pr->interp.resolve(o.h) == pr->interp.resolve(o.h2))
                pr->findings.push_back({"two_qubit_gate_executed_on_one_qubit", "C05", "op " + std::to_string(k - 1) + ": cx with control and target bound to the same qubit was executed (the emitted text cannot be a valid two-qubit gate application)"});
            pr->desync = true;
            return;
        }
    }
    ++pr->boundaries;
    boundaryChecks(*pr, ob, k - 1);
    pr->evlog.add((uint64_t)k * 131 + ob.words.size());
    pr->currentOp = k;
    pr->wordMark = g_rng.history.size();
    g_rng.clearStaged();
    if (k < (int)pr->plan->ops.size() && !pr->desync) {
        for (uint64_t bits : pr->interp.drawsFor(pr->plan->ops[(size_t)k])) g_rng.stage64(bits);
    }
}

struct ProgOutcome {
    int status = 0;  // 0 normal, 1 runtime error, 2 other bloch error, 3 std::exception, 9 rejected
    std::string message;
    int errLine = 0, errCol = 0;
    std::vector<qh::Finding> findings;
    uint64_t boundaries = 0, yields = 0;
    qh::Interp interp;
    sim::Hash evlog;
    bool desync = false;
};

ProgOutcome runProgram(const qh::Plan& plan, const std::string& property, uint64_t seed, uint64_t run, sim::RunReport* rep) {
    ProgOutcome R;
    qh::Rendered rd = qh::render(plan);
    std::unique_ptr<compiler::Program> prog;
    try {
        compiler::Lexer lx(rd.source);
        auto toks = lx.tokenize();
        compiler::Parser p(std::move(toks));
        prog = p.parse();
        compiler::SemanticAnalyser an;
        an.analyse(*prog);
    } catch (const std::exception& e) {
        R.status = 9;
        R.message = e.what();
        return R;
    }
    ProgRun pr;
    pr.plan = &plan;
    pr.rendered = &rd;
    pr.property = property;
    pr.interp.orientation = g_orientation;
    pr.interp.begin(plan);
    compiler::FunctionDeclaration* mainFn = nullptr;
    for (auto& f : prog->functions)
        if (f->name == "main") mainFn = f.get();
    if (!mainFn || !mainFn->body || mainFn->body->statements.size() != rd.stmtOp.size()) {
        R.status = 9;
        R.message = "renderer/parser statement count mismatch";
        return R;
    }
    for (size_t i = 0; i < mainFn->body->statements.size(); ++i) pr.stmtIndex[mainFn->body->statements[i].get()] = i;
    g_pr = &pr;
    g_rng.reset(seed, run);
    g_rng.install();
    gcs::g_observer = &progObserver;
    gcs::install();
    gcs::Schedule sched;
    sched.generative = true;
    sched.genSeed = seed * 977 + run;
    sched.meanIncNs = (run % 5 == 0) ? 25000000 : 1000000;  // low tick rate; objects owning qubits are never collected
    sched.notifyLost = run % 3 == 0;
    CoutCapture cap;
    gcs::beginRun(sched);
    {
        bool logOn = run % 5 != 2;            // multi-shot mode runs every shot but the last without a QASM log
        runtime::RuntimeEvaluator ev(logOn);
        if (run % 7 == 3) ev.setEcho(false);  // as multi-shot mode does for every shot
        try {
            ev.execute(*prog);
            R.status = 0;
        } catch (const support::BlochError& e) {
            R.status = e.category == support::ErrorCategory::Runtime ? 1 : 2;
            R.message = e.what();
            R.errLine = e.line;
            R.errCol = e.column;
        } catch (const std::exception& e) {
            R.status = 3;
            R.message = e.what();
        }
        auto push = [&](const std::string& cls, const std::string& owner, const std::string& d) { pr.findings.push_back({cls, owner, d}); };
        if (!pr.desync) {
            if (pr.deferredAtOp >= 0) {
                // a user destructor touched a measured qubit: the run must have stopped at the next boundary
                if (R.status != 1) push("measured_qubit_operated_on", "C06", "a destructor applied a gate to its measured qubit field while op " + std::to_string(pr.deferredAtOp - 1) + " destroyed the object, and the program went on (status " + std::to_string(R.status) + ")");
                else if (R.errLine <= 0 || R.errCol <= 0) push("guard_error_without_location", "C06", "error from a destructor: " + R.message);
            } else if (R.status == 0) {
                if (pr.modelPos != (int)plan.ops.size()) push("program_did_not_reach_end_marker", "C06", "model at op " + std::to_string(pr.modelPos) + " of " + std::to_string(plan.ops.size()));
            } else if (R.status == 1) {
                int k = pr.currentOp;
                if (k < 0 || k >= (int)plan.ops.size() || pr.modelPos != k) push("runtime_error_outside_any_op", "C06", R.message);
                else {
                    qh::Observation ob = observe(&ev);
                    ob.words.assign(g_rng.history.begin() + (long)pr.wordMark, g_rng.history.end());
                    std::vector<qh::Finding> scratch;
                    pr.interp.apply(plan.ops[(size_t)k], k, ob, true, scratch);
                    const qh::Op& o = plan.ops[(size_t)k];
                    if (!pr.interp.expectError) {
                        bool aboutMeasured = R.message.find("measured") != std::string::npos;
                        push("unexpected_runtime_error", aboutMeasured ? "C06" : "C03", "op " + std::to_string(k) + " (" + qh::kindName(o.kind) + " via " + qh::handleExpr(o.h) + ") is legal (no measured qubit involved) but the run stopped: " + R.message);
                    } else {
                        if (R.errLine <= 0 || R.errCol <= 0) push("guard_error_without_location", "C06", "op " + std::to_string(k) + " (" + qh::kindName(o.kind) + " via " + qh::handleExpr(o.h) + ", path " + std::to_string(o.path) + "): " + R.message);
                    }
                }
            } else {
                push("non_runtime_failure", "C06", R.message);
            }
        }
        // ---- end-of-run oracles (normal end, model in sync) ----
        // a Port object lives to the end of main and dies in the unordered scope teardown, where it resets the local it
        // names last: what is emitted and recorded after the end marker is then order-dependent and is not judged
        bool hasPort = false;
        for (auto& o : plan.ops) hasPort |= o.kind == qh::PORT;
        if (!pr.desync && R.status == 0 && pr.findings.empty() && logOn && !hasPort) {
            // C05: emitted text
            std::string text = ev.getQasm();
            refq::QasmProgram P = refq::parseQasm(text);
            auto& I = pr.interp;
            if (!P.ok) push("qasm_not_well_formed", "C05", P.error);
            else if (P.qreg != I.sv.n || P.creg != I.sv.n) push("qasm_register_size_wrong", "C05", "qreg " + std::to_string(P.qreg) + " creg " + std::to_string(P.creg) + " for " + std::to_string(I.sv.n) + " qubits");
            else {
                refq::QasmProgram M = refq::parseQasm("OPENQASM 2.0;\ninclude \"qelib1.inc\";\nqreg q[" + std::to_string(I.sv.n) + "];\ncreg c[" + std::to_string(I.sv.n) + "];\n" + [&]() { std::string s; for (auto& l : I.qasm) s += l + "\n"; return s; }());
                if (!M.ok) push("harness_model_qasm_invalid", "harness", M.error);
                else if (M.ops.size() != P.ops.size()) push("qasm_operation_count_wrong", "C05", std::to_string(P.ops.size()) + " statements emitted, " + std::to_string(M.ops.size()) + " operations performed");
                else {
                    bool ok = true;
                    for (size_t i = 0; i < M.ops.size() && ok; ++i) {
                        const auto &a = M.ops[i], &b = P.ops[i];
                        if (a.kind != b.kind || a.q0 != b.q0 || a.q1 != b.q1 || (a.kind >= 4 && a.kind <= 6 && std::fabs(a.angle - b.angle) > 5e-7 * std::max(1.0, std::fabs(a.angle)))) {
                            push("qasm_operation_mismatch", "C05", "statement " + std::to_string(i) + ": emitted '" + b.text + "', performed '" + a.text + "'");
                            ok = false;
                        }
                    }
                    if (ok) {
                        SV rep2;
                        std::string err;
                        double minW = 1.0;
                        if (I.noiseBranches > 0) { /* a rounding-noise outcome cannot be replayed from six-decimal angles: skipped, counted */ }
                        else if (!refq::replayQasm(P, I.outcomes, rep2, err, &minW)) push("qasm_replay_failed", "C05", err);
                        else {
                            int rots = 0;
                            for (auto& q : P.ops) if (q.kind >= 4 && q.kind <= 6) ++rots;
                            double d = refq::maxDiffUpToPhase(rep2.a, ev.m_sim.m_state);
                            // six printed decimals: 5e-7 per rotation angle, amplified by renormalising onto low-weight branches
                            if (d > 1e-6 * (1 + rots) / std::sqrt(std::max(minW, 1e-12))) push("qasm_replay_state_differs", "C05", "distance " + refq::fd(d));
                        }
                    }
                }
            }
        }
        // C02: the tracked outcome recorded when main's scope ends agrees with the last measurements
        if (!pr.desync && R.status == 0 && pr.findings.empty() && !hasPort) {
            std::map<std::string, std::string> want;
            auto& I = pr.interp;
            for (size_t id = 0; id < I.decls.size(); ++id) {
                const qh::DeclInfo& d = I.decls[id];
                if (!d.tracked || d.kind > 1) continue;
                std::string out;
                bool all = true;
                for (int q : I.declIdx[id]) { int lm = I.lastMeas[(size_t)q]; if (lm < 0) all = false; else out.push_back(lm ? '1' : '0'); }
                if (!all) out = "?";
                want[std::string(d.kind == 0 ? "qubit " : "qubit[] ") + declName(d, id)] = out;
            }
            std::map<std::string, std::string> got;
            std::map<std::string, std::map<std::string, int>> gotDeaths;
            bool multi = false;
            for (auto& a : ev.trackedCounts()) {
                if (a.first.rfind("Q1", 0) == 0 || a.first.rfind("Q2", 0) == 0) { for (auto& b : a.second) gotDeaths[a.first][b.first] += b.second; continue; }   // tracked fields of objects
                for (auto& b : a.second) { if (b.second != 1 || got.count(a.first)) multi = true; got[a.first] = b.first; }
            }
            if (gotDeaths != I.trackedDeaths) {
                auto str = [](const std::map<std::string, std::map<std::string, int>>& m) { std::string s; for (auto& a : m) { s += a.first + "{"; for (auto& b : a.second) s += b.first + ":" + std::to_string(b.second) + " "; s += "} "; } return s; };
                push("tracked_outcome_of_owner_differs_from_measurements", "C02", "objects released during the run recorded " + str(gotDeaths) + "but their fields' last measurements at release give " + str(I.trackedDeaths));
            } else if (multi || got != want) {
                std::string gs, ws;
                for (auto& kv : got) gs += kv.first + "=" + kv.second + " ";
                for (auto& kv : want) ws += kv.first + "=" + kv.second + " ";
                push("tracked_outcome_differs_from_measurements", "C02", "recorded {" + gs + "} but the last measurements give {" + ws + "}");
            }
        }
        // C02: echoed bits equal the model's outcomes
        if (!pr.desync && pr.findings.empty()) {
            for (auto& line : ev.m_echoBuffer) {
                if (line.size() > 2 && line[0] == 'b') {
                    size_t eq = line.find('=');
                    if (eq == std::string::npos) continue;
                    int bv = atoi(line.c_str() + 1), val = atoi(line.c_str() + eq + 1);
                    auto it = pr.interp.bitvars.find(bv);
                    if (it != pr.interp.bitvars.end() && it->second != val) push("echoed_bit_differs_from_outcome", "C02", line + " but outcome was " + std::to_string(it->second));
                }
            }
        }
        if (gcs::g_stats.livenessViolation) push("timer_not_stopped", "C11", "");
    }
    gcs::endRun();
    g_pr = nullptr;
    rngs::Provider::uninstall();
    R.findings = pr.findings;
    R.boundaries = pr.boundaries;
    R.yields = gcs::g_stats.yields;
    R.interp = pr.interp;
    R.evlog = pr.evlog;
    R.desync = pr.desync;
    (void)rep;
    return R;
}

// ---- environment fault for CLI runs: a locale whose decimal point is ',' -----------------------------------
// The interpreter never calls setlocale, so the variables have no effect on the unchanged tree; code that adopts
// the environment's locale prints and parses numbers with it. The harness restores the "C" locale after the call.
bool commaLocaleAvailable() {
    static int avail = -1;
    if (avail < 0) avail = access((std::string(VERIF_ROOT) + "/build/locale/xx_XX/LC_NUMERIC").c_str(), R_OK) == 0 ? 1 : 0;
    return avail == 1;
}
struct LocaleEnv {
    bool on;
    explicit LocaleEnv(bool enable) : on(enable && commaLocaleAvailable()) {
        if (!on) return;
        setenv("LOCPATH", (std::string(VERIF_ROOT) + "/build/locale").c_str(), 1);
        setenv("LC_NUMERIC", "xx_XX", 1);
        unsetenv("LC_ALL");
        unsetenv("LANG");
    }
    ~LocaleEnv() {
        if (!on) return;
        unsetenv("LOCPATH");
        unsetenv("LC_NUMERIC");
        setlocale(LC_ALL, "C");
    }
};

// ---- CLI clause of C05: the .qasm file equals what --emit-qasm prints ---------------------------------
std::string g_scratch;
bool cliQasmFileCheckOnce(const qh::Plan& plan, int shots, std::string& detail, bool keepOldFile, int spelling);
bool g_cliCommaLocale = false;   // the next CLI-clause runs happen under the comma-decimal locale environment
// The file clause, including a stale file: when the plan owns no objects, the program is first run in full and
// then truncated before its last gate with the same scripted draws, so that the second run's text is a strict
// prefix of the file the first run left behind.
// spelling: how the source is named on the command line. 0 absolute; 1 through <symlink-to-directory>/.. (the file
// next to the source is then NOT where a lexical normalisation of the argument points); 2 relative to the working
// directory with a redundant sub/.. component.
bool cliQasmFileCheck(const qh::Plan& plan, int shots, std::string& detail, int spelling) {
    bool objects = false;
    int lastGate = -1;
    for (size_t i = 0; i < plan.ops.size(); ++i) {
        if (plan.ops[i].kind == qh::NEWOBJ1 || plan.ops[i].kind == qh::NEWOBJ2 || plan.ops[i].kind == qh::CYCLE || plan.ops[i].kind == qh::ALIAS || plan.ops[i].kind == qh::PORT) objects = true;
        if (plan.ops[i].kind == qh::GATE) lastGate = (int)i;
    }
    if (!cliQasmFileCheckOnce(plan, shots, detail, false, spelling)) return false;
    if (!objects && lastGate > 0) {
        qh::Plan t = plan;
        t.ops.resize((size_t)lastGate);
        std::string d2;
        if (!cliQasmFileCheckOnce(t, shots, d2, true, spelling)) { detail = "after a longer run had left its .qasm file in place: " + d2; return false; }
    }
    return true;
}
bool cliQasmFileCheckOnce(const qh::Plan& plan, int shots, std::string& detail, bool keepOldFile, int spelling) {
    qh::Plan p = plan;
    p.shots = shots;
    qh::Rendered rd = qh::render(p);
    std::string base = g_scratch + "/prog", arg = base + ".bloch", decoy;
    char oldCwd[4096] = "";
    if (spelling == 1) {
        // real layout: <scratch>/sub/prog.bloch, <scratch>/sub/deep/, <scratch>/lnk -> sub/deep ; argument <scratch>/lnk/../prog.bloch
        sim::mkdirs(g_scratch + "/sub/deep");
        if (symlink((g_scratch + "/sub/deep").c_str(), (g_scratch + "/lnk").c_str()) != 0 && errno != EEXIST) { detail = "harness: symlink failed"; return true; }
        base = g_scratch + "/sub/prog";
        arg = g_scratch + "/lnk/../prog.bloch";
        decoy = g_scratch + "/prog.qasm";
    } else if (spelling == 2) {
        sim::mkdirs(g_scratch + "/sub");
        if (!getcwd(oldCwd, sizeof oldCwd) || chdir(g_scratch.c_str()) != 0) { detail = "harness: chdir failed"; return true; }
        arg = "sub/../prog.bloch";
    }
    sim::writeFile(base + ".bloch", rd.source);
    if (!keepOldFile) unlink((base + ".qasm").c_str());
    if (!decoy.empty()) unlink(decoy.c_str());
    auto runCli = [&](bool emitFlag, std::string& out) {
        g_rng.reset(0x5eed, 7);   // the same draws for the full run, the truncated run and the run without the flag
        std::vector<std::string> args = {"bloch"};
        if (emitFlag) args.push_back("--emit-qasm");
        args.push_back(arg);
        std::vector<char*> av;
        for (auto& a : args) av.push_back(const_cast<char*>(a.c_str()));
        gcs::g_observer = nullptr;
        gcs::install();
        gcs::Schedule s;
        s.generative = true;
        s.meanIncNs = 1000000;
        g_rng.install();
        int rc;
        {
            LocaleEnv le(g_cliCommaLocale);
            CoutCapture cap;
            gcs::beginRun(s);
            rc = cli::run((int)av.size(), av.data(), cli::Context{});
            gcs::endRun();
            out = cap.out.str();
        }
        rngs::Provider::uninstall();
        return rc;
    };
    std::string out;
    int rc = runCli(true, out);
    auto back = [&]() { return !(oldCwd[0] && chdir(oldCwd) != 0); };
    if (rc != 0) { back(); detail = "cli::run returned " + std::to_string(rc); return true; }  // runtime error paths are not this clause
    std::string file;
    if (!sim::readFile(base + ".qasm", file)) { back(); detail = "no .qasm file written next to the source (source named as '" + arg + "')"; return false; }
    size_t pos = out.find("OPENQASM 2.0;");
    if (pos == std::string::npos) { back(); detail = "--emit-qasm printed no OpenQASM text"; return false; }
    if (out.substr(pos) != file) { back(); detail = "bytes of prog.qasm differ from the OpenQASM section printed by --emit-qasm (shots=" + std::to_string(shots) + ")"; return false; }
    refq::QasmProgram P = refq::parseQasm(file);
    if (!P.ok) { back(); detail = "file is not well-formed: " + P.error; return false; }
    if (!keepOldFile) {
        // the file is written by every run, with or without the flag: the same run without --emit-qasm leaves the same bytes
        unlink((base + ".qasm").c_str());
        std::string out2, file2;
        int rc2 = runCli(false, out2);
        if (rc2 == 0) {
            if (!sim::readFile(base + ".qasm", file2)) { back(); detail = "a run without --emit-qasm wrote no .qasm file next to the source"; return false; }
            if (file2 != file) { back(); detail = "the .qasm file written by a run without --emit-qasm (" + std::to_string(file2.size()) + " bytes) differs from what the same run prints with --emit-qasm (" + std::to_string(file.size()) + " bytes, shots=" + std::to_string(shots) + ")"; return false; }
        }
    }
    if (!back()) { detail = "harness: chdir back failed"; return true; }
    return true;
}


// ---- CLI clause of C02: over the shots of a run, the tracked table reports exactly the bits the measurements returned ----
// A helper declares a tracked qubit, rotates it and returns the measured bit; main calls it k times per shot and echoes
// every returned bit (--echo=all). The aggregate table of that variable must hold one outcome per call and per shot,
// and its '1' count must be the number of echoed ones.
struct TrackedCli { int k = 3, shots = 2, angle = 7; bool annotate = false; uint64_t seed = 1, run = 0; };
Json trackedCliJson(const TrackedCli& t) {
    return Json::object().set("engine", "qhist").set("level", "cli_tracked").set("calls_per_shot", t.k).set("shots", t.shots).set("angle", t.angle).set("annotate", t.annotate)
        .set("rng_seed", Json((unsigned long long)t.seed)).set("rng_run", Json((unsigned long long)t.run));
}
std::string trackedCliSource(const TrackedCli& t) {
    qh::Op a;
    a.angle = t.angle;
    std::string s = "@quantum\nfunction sample() -> bit {\n    @tracked qubit q;\n    ry(q, " + qh::angleText(a) + ");\n    return measure q;\n}\n";
    if (t.annotate) s += "@shots(" + std::to_string(t.shots) + ")\n";
    s += "function main() -> void {\n    for (int i = 0; i < " + std::to_string(t.k) + "; i = i + 1) {\n        bit b = sample();\n        echo(\"bit=\" + b);\n    }\n}\n";
    return s;
}
bool trackedCliCheck(const TrackedCli& t, std::string& detail) {
    std::string file = g_scratch + "/tracked.bloch";
    sim::writeFile(file, trackedCliSource(t));
    std::vector<std::string> args = {"bloch"};
    if (!t.annotate) args.push_back("--shots=" + std::to_string(t.shots));
    args.push_back("--echo=all");
    args.push_back(file);
    std::vector<char*> av;
    for (auto& a : args) av.push_back(const_cast<char*>(a.c_str()));
    g_rng.reset(t.seed ^ 0x7ac4edull, t.run);
    gcs::g_observer = nullptr;
    gcs::install();
    gcs::Schedule s;
    s.generative = true;
    s.meanIncNs = 1000000;
    g_rng.install();
    std::string out;
    int rc;
    {
        CoutCapture cap;
        gcs::beginRun(s);
        rc = cli::run((int)av.size(), av.data(), cli::Context{});
        gcs::endRun();
        out = cap.out.str();
    }
    rngs::Provider::uninstall();
    if (rc != 0) { detail = "cli::run returned " + std::to_string(rc); return false; }
    long ones = 0, zeros = 0, t1 = -1, t0 = -1, other = 0;
    bool inTable = false;
    std::string cur;
    auto line = [&](const std::string& l) {
        if (l == "bit=1") { ++ones; return; }
        if (l == "bit=0") { ++zeros; return; }
        if (l == "qubit q") { inTable = true; return; }
        if (!inTable) return;
        size_t a = l.find(" | ");
        if (a == std::string::npos) return;
        std::string oc = l.substr(0, a);
        while (!oc.empty() && oc.back() == ' ') oc.pop_back();
        long cnt = atol(l.c_str() + a + 3);
        if (oc == "1") t1 = cnt; else if (oc == "0") t0 = cnt; else if (oc != "outcome") other += cnt;
    };
    for (char c : out) { if (c == '\n') { line(cur); cur.clear(); } else cur.push_back(c); }
    if (!cur.empty()) line(cur);
    long total = (long)t.k * t.shots;
    if (t.shots == 1 && !t.annotate) { /* '--shots=1' still prints the summary */ }
    if (ones + zeros != total) { detail = std::to_string(ones + zeros) + " returned bits echoed, expected " + std::to_string(total); return false; }
    long g1 = t1 < 0 ? 0 : t1, g0 = t0 < 0 ? 0 : t0;
    if (!inTable && total > 0) { detail = "no table for the tracked qubit was printed"; return false; }
    if (g1 != ones || g0 != zeros || other != 0) {
        detail = "the measurements returned " + std::to_string(ones) + " ones and " + std::to_string(zeros) + " zeros over " + std::to_string(t.shots) + " shot(s) of " + std::to_string(t.k) + " call(s), but the tracked table reports 1:" + std::to_string(g1) + " 0:" + std::to_string(g0) + " other:" + std::to_string(other);
        return false;
    }
    return true;
}


// ---- class-shape probe of C03: every qubit field of every live object denotes a simulator qubit of its own ----------------
// Chains of up to three classes, each level declaring one or two qubit fields whose names are drawn from {q, r, s}: a
// level may re-declare (shadow) a name of a level below it. One or two objects are created and an x is applied through
// every field name; at every statement boundary all qubit fields of all live objects must hold pairwise different
// indices, and once everything is built their number, and the register size, must be the number of declared fields.
struct ShapePlan { std::vector<std::vector<int>> levels; int objects = 1; uint64_t seed = 0; };
Json shapeJson(const ShapePlan& p) {
    Json lv = Json::array();
    for (auto& l : p.levels) { Json a = Json::array(); for (int n : l) a.push(n); lv.push(a); }
    return Json::object().set("engine", "qhist").set("level", "class_shape").set("levels", lv).set("objects", p.objects).set("rng_seed", Json((unsigned long long)p.seed)).set("rng_run", Json(0ull));
}
ShapePlan shapeFrom(const Json& j) {
    ShapePlan p;
    for (auto& l : j.at("levels").a) { std::vector<int> v; for (auto& n : l.a) v.push_back((int)n.asInt()); p.levels.push_back(v); }
    p.objects = (int)j.at("objects").asInt();
    p.seed = j.at("rng_seed").asU64(0);
    return p;
}
std::string shapeSource(const ShapePlan& p) {
    static const char* names[] = {"q", "r", "s"};
    std::string s;
    for (size_t l = 0; l < p.levels.size(); ++l) {
        std::string cls = "S" + std::to_string(l);
        s += "class " + cls + (l ? " extends S" + std::to_string(l - 1) : "") + " {\n";
        for (int n : p.levels[l]) s += std::string("    public qubit ") + names[n] + ";\n";
        s += "    public constructor() -> " + cls + " { " + (l ? "super(); " : "") + "return this; }\n}\n";
    }
    std::string top = "S" + std::to_string(p.levels.size() - 1);
    s += "function main() -> void {\n";
    for (int o = 0; o < p.objects; ++o) s += "    " + top + " o" + std::to_string(o) + " = new " + top + "();\n";
    std::set<int> visible;
    for (auto& l : p.levels) for (int n : l) visible.insert(n);
    for (int o = 0; o < p.objects; ++o)
        for (int n : visible) s += "    x(o" + std::to_string(o) + "." + names[n] + ");\n";
    s += "    echo(\"end\");\n}\n";
    return s;
}
struct ShapeObs { std::string problem; size_t lastCount = 0; int lastSimQubits = 0; };
ShapeObs* g_shapeObs = nullptr;
void shapeObserver(runtime::RuntimeEvaluator* ev, void*, uint64_t, bool) {
    if (!g_shapeObs || !g_shapeObs->problem.empty()) return;
    std::map<int, std::string> seen;
    size_t count = 0;
    int objIdx = 0;
    for (auto& w : ev->m_heap) {
        auto obj = w.lock();
        if (!obj || obj->destroyed) continue;
        ++objIdx;
        for (size_t f = 0; f < obj->fields.size(); ++f) {
            if (obj->fields[f].type != runtime::Value::Type::Qubit) continue;
            ++count;
            int q = obj->fields[f].qubit;
            std::string name = "object " + std::to_string(objIdx) + " field slot " + std::to_string(f);
            if (seen.count(q)) { g_shapeObs->problem = name + " and " + seen[q] + " both hold simulator qubit q[" + std::to_string(q) + "]"; return; }
            seen[q] = name;
        }
    }
    g_shapeObs->lastCount = count;
    g_shapeObs->lastSimQubits = ev->m_sim.m_qubits;
}
bool shapeCheck(const ShapePlan& p, std::string& cls, std::string& detail) {
    std::unique_ptr<compiler::Program> prog;
    try {
        std::string src = shapeSource(p);   // the lexer keeps a view of it
        compiler::Lexer lx(src);
        auto toks = lx.tokenize();
        compiler::Parser ps(std::move(toks));
        prog = ps.parse();
        compiler::SemanticAnalyser an;
        an.analyse(*prog);
    } catch (const std::exception& e) { cls = "harness_rejected"; detail = e.what(); return false; }
    ShapeObs obs;
    g_shapeObs = &obs;
    g_rng.reset(p.seed, 0);
    g_rng.install();
    gcs::g_observer = &shapeObserver;
    gcs::install();
    gcs::Schedule s;
    s.generative = true;
    s.meanIncNs = 1000000;
    std::string failure;
    {
        CoutCapture cap;
        gcs::beginRun(s);
        {
            runtime::RuntimeEvaluator ev;
            try { ev.execute(*prog); } catch (const std::exception& e) { failure = e.what(); }
        }
        gcs::endRun();
    }
    gcs::g_observer = nullptr;
    g_shapeObs = nullptr;
    rngs::Provider::uninstall();
    size_t declared = 0;
    for (auto& l : p.levels) declared += l.size();
    declared *= (size_t)p.objects;
    if (!obs.problem.empty()) { cls = "two_fields_share_qubit"; detail = obs.problem; return false; }
    if (!failure.empty()) { cls = "unexpected_runtime_error"; detail = "class-shape program stopped: " + failure; return false; }
    if (obs.lastCount != declared || obs.lastSimQubits != (int)declared) { cls = "state_size_wrong"; detail = std::to_string(declared) + " qubit fields were declared, " + std::to_string(obs.lastCount) + " are held by live objects and the simulator has " + std::to_string(obs.lastSimQubits) + " qubits"; return false; }
    return true;
}


// ---- program probes of C06: simultaneously live instances of one declaration, and the shot loop -----------------------------
// variant 0: every activation of a recursive function declares 'qubit q', measures it and recurses; back in the caller the
//            gate on the caller's own measured q must be refused, with the line of that gate
// variant 1: the same shape, but the caller's q is never measured before the inner activations have measured theirs: the
//            caller's gate and measurement must be accepted
// variant 2: a multi-shot CLI run whose offending gate sits on a branch taken only when a measurement returns 1: the run
//            must stop at the first such shot with the located error (it cannot end normally unless every shot measured 0)
struct C06Probe { int variant = 0, depth = 1; uint64_t seed = 0; };
Json c06ProbeJson(const C06Probe& p) { return Json::object().set("engine", "qhist").set("level", "c06_probe").set("variant", p.variant).set("depth", p.depth).set("rng_seed", Json((unsigned long long)p.seed)).set("rng_run", Json(0ull)); }
std::string c06ProbeSource(const C06Probe& p) {
    if (p.variant == 0)
        return "function nest(int d) -> void {\n    qubit q;\n    if (d == 0) { return; }\n    x(q);\n    bit m = measure q;\n    nest(d - 1);\n    h(q);\n    echo(\"not refused\");\n}\nfunction main() -> void {\n    nest(" + std::to_string(p.depth) + ");\n}\n";
    if (p.variant == 1)
        return "function nest(int d) -> void {\n    qubit q;\n    if (d > 0) { nest(d - 1); }\n    h(q);\n    bit m = measure q;\n    echo(\"level \" + d);\n}\nfunction main() -> void {\n    nest(" + std::to_string(p.depth) + ");\n    echo(\"done\");\n}\n";
    return "@shots(12)\nfunction main() -> void {\n    qubit a;\n    h(a);\n    bit m = measure a;\n    echo(\"m=\" + m);\n    if (m) {\n        h(a);\n    }\n}\n";
}
bool c06ProbeCheck(const C06Probe& p, std::string& cls, std::string& detail) {
    std::string src = c06ProbeSource(p);
    g_rng.reset(p.seed ^ 0xc06c06ull, 0);
    gcs::g_observer = nullptr;
    gcs::install();
    gcs::Schedule s;
    s.generative = true;
    s.meanIncNs = 1000000;
    if (p.variant == 2) {
        std::string file = g_scratch + "/c06probe.bloch";
        sim::writeFile(file, src);
        std::vector<std::string> args = {"bloch", "--echo=all", file};
        std::vector<char*> av;
        for (auto& a : args) av.push_back(const_cast<char*>(a.c_str()));
        g_rng.install();
        std::string out, err;
        int rc;
        {
            CoutCapture cap;
            gcs::beginRun(s);
            rc = cli::run((int)av.size(), av.data(), cli::Context{});
            gcs::endRun();
            out = cap.out.str();
            err = cap.err.str();
        }
        rngs::Provider::uninstall();
        long zeros = 0, ones = 0;
        std::string cur;
        for (char c : out) { if (c == '\n') { if (cur == "m=0") ++zeros; if (cur == "m=1") ++ones; cur.clear(); } else cur.push_back(c); }
        if (rc == 0 && (zeros != 12 || ones != 0)) { cls = "measured_qubit_operated_on"; detail = "a 12-shot run ended normally although only " + std::to_string(zeros) + " shots measured 0 (the others reach a gate on a measured qubit): " + err.substr(0, 200); return false; }
        if (rc != 0 && (err.find("already been measured") == std::string::npos || err.find("Ln 8") == std::string::npos)) { cls = "guard_error_without_location", detail = "the run stopped with: " + err.substr(0, 200); return false; }
        return true;
    }
    std::unique_ptr<compiler::Program> prog;
    try {
        compiler::Lexer lx(src);
        auto toks = lx.tokenize();
        compiler::Parser ps(std::move(toks));
        prog = ps.parse();
        compiler::SemanticAnalyser an;
        an.analyse(*prog);
    } catch (const std::exception& e) { cls = "harness_rejected"; detail = e.what(); return false; }
    g_rng.install();
    int status = 0, line = 0;
    std::string message, echoes;
    {
        CoutCapture cap;
        gcs::beginRun(s);
        {
            runtime::RuntimeEvaluator ev;
            try { ev.execute(*prog); } catch (const support::BlochError& e) { status = 1; message = e.what(); line = e.line; } catch (const std::exception& e) { status = 3; message = e.what(); }
            for (auto& l : ev.m_echoBuffer) echoes += l + "|";
        }
        gcs::endRun();
        echoes += cap.out.str();
    }
    rngs::Provider::uninstall();
    if (p.variant == 0) {
        if (status == 0) { cls = "measured_qubit_operated_on"; detail = "the caller's gate on its own measured qubit was accepted after an inner activation of the same declaration (" + echoes.substr(0, 60) + ")"; return false; }
        if (message.find("already been measured") == std::string::npos || line != 7) { cls = "guard_error_without_location"; detail = "expected the located refusal at Ln 7, got: " + message; return false; }
        return true;
    }
    if (status != 0) { cls = "unexpected_runtime_error"; detail = "no qubit is touched after its measurement, but the run stopped: " + message; return false; }
    return true;
}

// ================================================================================================
// plans, runs, shrinking
// ================================================================================================
// A state that departs from the reference semantics of the logged operations cannot be reproduced by
// replaying the emitted text either, so C05 owns the state-level findings of C02-C04 as well.
bool stateLevel(const std::string& cls) {
    return cls.rfind("state_mismatch_after_", 0) == 0 || cls == "norm_not_one" || cls == "non_finite_amplitude" || cls == "reset_post_state_matches_no_branch" || cls == "zero_probability_outcome" ||
           cls == "collapsed_state_not_in_outcome_subspace" || cls == "state_size_wrong";
}
bool owns(const std::string& property, const std::string& owner, const std::string& cls) {
    if (owner == property) return true;
    // C03: "previously allocated qubits keep their state when a new qubit is allocated", also when the new
    // declaration recycles an index (the implicit reset then is C04's, the disturbance of the others is C03's)
    if (property == "C03" && (cls == "state_mismatch_after_decl" || cls == "state_mismatch_after_declarr" || cls == "state_mismatch_after_newobj1" || cls == "state_mismatch_after_newobj2" || cls == "state_mismatch_after_alias")) return true;
    if (property == "C05" && stateLevel(cls) && (owner == "C02" || owner == "C03" || owner == "C04")) return true;
    if (property == "C03" && (cls == "norm_not_one" || cls == "non_finite_amplitude" || cls == "state_size_wrong")) return true;
    return false;
}
bool ownsFwd(const std::string& property, const std::string& owner, const std::string& cls) { return owns(property, owner, cls); }
std::string ownerOf(const std::vector<qh::Finding>& f, const std::string& property, qh::Finding& first) {
    for (auto& x : f)
        if (owns(property, x.owner, x.cls)) { first = x; return x.cls; }
    return "";
}

Json planJson(bool simLevel, const std::vector<SimOp>& sops, const qh::Plan& pp) {
    Json j = Json::object();
    j.set("engine", "qhist").set("level", simLevel ? "simulator" : "program");
    if (simLevel) {
        Json a = Json::array();
        for (auto& o : sops) a.push(simOpJson(o));
        j.set("ops", a);
    } else {
        j.set("history", qh::toJson(pp));
        j.set("source_text", qh::render(pp).source);
    }
    return j;
}

qh::GenOptions genOptionsFor(const std::string& property, sim::Rng& knob) {
    qh::GenOptions go;
    go.maxOps = knob.range(6, 30);
    go.maxQubits = knob.range(2, 7);
    if (property == "C06") go.guardViolationProb = 0.12;
    if (property == "C04") { go.resetShare = 0.22; go.objectShare = 0.4; go.entangleBias = 0.7; }
    if (property == "C03") { go.objectShare = 0.45; go.resetShare = 0.15; }
    if (property == "C02") { go.boundaryDrawProb = 0.3; }
    go.tracked = knob.chance(0.3);
    if (property == "C04") go.aliasProb = knob.chance(0.3) ? 0.12 : 0.0;
    if (property == "C06") go.aliasProb = knob.chance(0.25) ? 0.1 : 0.0;
    if (property == "C06") go.portProb = knob.chance(0.25) ? 0.1 : 0.0;
    if (property == "C06" || property == "C05") go.argEffectProb = knob.chance(0.3) ? 0.04 : 0.0;
    if (property == "C05") go.hugeLoopProb = 0.0;   // set per run index by the caller
    if (property == "C03" || property == "C05" || property == "C06") go.nonFiniteAngleProb = knob.chance(0.3) ? 0.01 : 0.0;
    if (property == "C03") { go.aliasProb = knob.chance(0.1) ? 0.12 : 0.0; go.cycleProb = knob.chance(0.4) ? 0.1 : 0.0; go.portProb = knob.chance(0.25) ? 0.1 : 0.0; }
    if (property == "C05" || property == "C04") go.cycleProb = knob.chance(0.15) ? 0.08 : 0.0;
    if (property == "C05" || property == "C06") go.sameQubitCxProb = 0.02;
    go.staticQubit = knob.chance(0.12);
    if (knob.chance(0.02)) go.maxQubits = 11;   // a few large registers
    return go;
}

bool g_simLogOn = true;
std::string simClass(const std::vector<SimOp>& ops, const std::string& property, std::string& detail, SimStats& st) {
    std::vector<Finding> f;
    uint64_t copyDraws = bloch::verif::g_drawsFromCopy;
    runSimHistory(ops, property, f, st, g_simLogOn);
    for (auto& x : f)
        if (owns(property, x.owner, x.cls)) { detail = x.detail; return x.cls; }
    // a draw taken from a copy of the generator leaves the shared generator where it was: with the shipped engine the
    // next draw repeats the same number, so outcomes that must be independent are correlated (C02 and C04 both rest on it)
    if ((property == "C02" || property == "C04") && bloch::verif::g_drawsFromCopy != copyDraws) {
        detail = std::to_string(bloch::verif::g_drawsFromCopy - copyDraws) + " word(s) were drawn from a copy of the measurement generator";
        return "draw_taken_from_copy_of_generator";
    }
    return "";
}
std::string progClass(const qh::Plan& p, const std::string& property, uint64_t seed, uint64_t run, std::string& detail, ProgOutcome* outp = nullptr) {
    uint64_t copyDraws = bloch::verif::g_drawsFromCopy;
    ProgOutcome o = runProgram(p, property, seed, run, nullptr);
    if (outp) *outp = o;
    if (o.status == 9) { detail = "rejected: " + o.message; return "harness_rejected"; }
    qh::Finding first;
    std::string c = ownerOf(o.findings, property, first);
    if (!c.empty()) detail = first.detail;
    if (c.empty() && (property == "C02" || property == "C04") && bloch::verif::g_drawsFromCopy != copyDraws) {
        detail = std::to_string(bloch::verif::g_drawsFromCopy - copyDraws) + " word(s) were drawn from a copy of the measurement generator";
        return "draw_taken_from_copy_of_generator";
    }
    return c;
}

void runOne(const sim::Options& opt, uint64_t run, sim::RunReport& rep) {
    sim::Rng gen(opt.seed, "gen", run), knob(opt.seed, "knob", run);
    bool simLevel = (run % 3) == 0 || g_bigReg;
    const std::string& property = opt.property;
    rep.count("runs");
    if (simLevel && !g_bigReg && run % 96 == 15) {
        // A history executed in a process that has never run a quantum operation: whatever the simulator keeps in
        // process-wide state (memo tables, function-local statics) is then in its initial state. The history starts with the
        // operations most likely to meet such state first: a rotation by exactly 0, a measurement, a reset.
        sim::Rng fg(opt.seed, "fresh", run);
        std::vector<SimOp> ops;
        int nq = fg.range(1, 3);
        for (int i = 0; i < nq; ++i) { SimOp a{}; a.kind = 0; ops.push_back(a); }
        if (fg.chance(0.5)) { SimOp g0{}; g0.kind = 1; g0.q = 0; g0.gate = fg.chance(0.5) ? 0 : 1; ops.push_back(g0); }   // h or x first: the state is not |0...0>
        SimOp r{};
        r.kind = 1;
        r.q = (int)fg.below((uint64_t)nq);
        r.gate = 4 + (int)fg.below(3);
        r.angle = fg.chance(0.7) ? 0.0 : (fg.chance(0.5) ? M_PI : 1.1);
        ops.push_back(r);
        if (nq > 1 && fg.chance(0.5)) { SimOp c{}; c.kind = 2; c.q = 0; c.q2 = 1; ops.push_back(c); }
        SimOp m{};
        m.kind = fg.chance(0.5) ? 3 : 4;
        m.q = (int)fg.below((uint64_t)nq);
        m.r64 = fg.next();
        ops.push_back(m);
        Json f = Json::object();
        f.set("engine_property", property).set("seed", Json((unsigned long long)opt.seed)).set("run", Json((unsigned long long)run)).set("flavour", opt.flavour);
        Json pj = planJson(true, ops, qh::Plan{});
        pj.set("rng_seed", Json((unsigned long long)opt.seed)).set("rng_run", Json((unsigned long long)run)).set("log_on", true).set("fresh_process", true);
        f.set("plan", pj);
        std::string path = g_scratch + "/fresh-process.json";
        sim::writeFile(path, f.dump());
        auto classOf = [](const sim::ChildResult& r) -> std::string {
            size_t p = r.out.find("REPLAY violation class=");
            if (p != std::string::npos) { size_t e = r.out.find('\n', p); return r.out.substr(p + 23, (e == std::string::npos ? r.out.size() : e) - p - 23); }
            if (r.out.find("REPLAY ok") != std::string::npos) return "";
            return "fresh_process_run_crashed:" + sim::classifyCrash(r.status, r.err);
        };
        sim::Options child = opt;
        child.mode.clear();
        sim::ChildResult r1 = sim::execReplay(child, path);
        std::string c1 = classOf(r1);
        rep.count("sim.histories_in_a_fresh_process");
        if (r.angle == 0.0) rep.count("sim.first_rotation_of_the_process_by_exactly_zero");
        sim::Hash h;
        h.addStr(pj.dump());
        rep.sig = h.h;
        rep.nontrivial = true;
        if (!c1.empty()) {
            sim::ChildResult r2 = sim::execReplay(child, path);
            sim::Violation v;
            v.cls = c1;
            v.signature = "sim:" + c1;
            size_t dp = r1.out.find("\n  ");
            v.detail = "in a process that had not run any quantum operation before: " + (dp == std::string::npos ? std::string() : r1.out.substr(dp + 3, 300));
            v.reproducible = classOf(r2) == c1;
            v.plan = pj;
            rep.violations.push_back(std::move(v));
        }
        return;
    }
    if (simLevel) {
        g_rng.reset(opt.seed, run);
        g_rng.install();
        std::vector<SimOp> ops = genSimHistory(gen, property);
        g_simLogOn = property == "C05" || run % 4 != 3;
        SimStats st;
        std::string detail;
        std::string cls = simClass(ops, property, detail, st);
        rep.count("sim.histories");
        rep.count("sim.calls", st.calls);
        rep.count("sim.measures", st.measures);
        rep.count("sim.resets", st.resets);
        rep.count("sim.entangled_resets", st.entangledResets);
        rep.count("sim.boundary_draws", st.boundaryDraws);
        rep.count("sim.ambiguous_skipped", st.ambiguous);
        rep.count("sim.guard_probes", st.guardProbes);
        rep.count("sim.guard_probes_not_refused_by_simulator", st.guardProbesNotRefused);
        rep.count("sim.noise_branches_adopted", st.noiseBranches);
        rep.count("sim.reset_weight_bisection_steps", st.bisections);
        rep.count("rng.words_drawn", g_rng.wordsDrawn);
        sim::Hash h;
        h.add(st.h.h);
        for (auto w : g_rng.history) h.add(w);
        rep.sig = h.h;
        rep.nontrivial = st.measures + st.resets > 0;
        if (run < 48) rep.sample = planJson(true, std::vector<SimOp>(ops.begin(), ops.begin() + (long)std::min<size_t>(ops.size(), 12)), qh::Plan{}).dump();
        if (!cls.empty()) {
            int budget = 300;
            std::function<bool(const std::vector<SimOp>&)> fails = [&](const std::vector<SimOp>& c) {
                // dropping ops may break index validity: validate
                int n = 0;
                std::vector<bool> m;
                for (auto& o : c) {
                    if (o.kind == 0) { ++n; m.push_back(false); continue; }
                    if (o.q >= n || (o.kind == 2 && (o.q2 >= n || o.q == o.q2)) || (o.kind == 5 && o.q2 >= n)) return false;
                    if (o.kind == 1 || o.kind == 2 || o.kind == 3) { if (m[(size_t)o.q] || (o.kind == 2 && m[(size_t)o.q2])) return false; }
                    if (o.kind == 3) m[(size_t)o.q] = true;
                    if (o.kind == 4) m[(size_t)o.q] = false;
                    if (o.kind == 5 && !m[(size_t)o.q]) return false;
                }
                SimStats s2;
                std::string d2;
                g_rng.reset(opt.seed, run);
                return simClass(c, property, d2, s2) == cls;
            };
            std::vector<SimOp> min = sim::ddmin<SimOp>(ops, fails, budget);
            SimStats s2;
            std::string d1, d2;
            g_rng.reset(opt.seed, run);
            std::string c1 = simClass(min, property, d1, s2);
            g_rng.reset(opt.seed, run);
            std::string c2 = simClass(min, property, d2, s2);
            sim::Violation v;
            v.cls = cls;
            v.signature = "sim:" + cls;
            v.detail = d1.empty() ? detail : d1;
            v.reproducible = c1 == cls && c2 == cls && d1 == d2;
            v.plan = planJson(true, min, qh::Plan{});
            v.plan.set("rng_seed", Json((unsigned long long)opt.seed)).set("rng_run", Json((unsigned long long)run)).set("log_on", g_simLogOn);
            rep.violations.push_back(std::move(v));
        }
        rngs::Provider::uninstall();
        return;
    }
    // ---- program level ----
    qh::GenOptions go = genOptionsFor(property, knob);
    // the loop of a little over 2^20 iterations costs seconds, so it is not left to chance: four fixed run indices of a quick batch
    // (and every 30 000th run of a thorough one) carry it
    if (property == "C05" && run % 30000 == 20003) go.hugeLoopProb = 1.0;   // (a program-level run that keeps its QASM log: not a multiple of 3, not 2 modulo 5)
    qh::Plan plan = qh::generate(gen, go);
    std::string detail;
    ProgOutcome po;
    std::string cls = progClass(plan, property, opt.seed, run, detail, &po);
    rep.count("prog.histories");
    rep.count("prog.ops", plan.ops.size());
    rep.count("prog.boundaries_checked", po.boundaries);
    rep.count("prog.yields", po.yields);
    rep.count("prog.reuse_events", po.interp.reuseEvents);
    rep.count("prog.genuine_resets", po.interp.genuineResets);
    rep.count("prog.entangled_resets", po.interp.entangledResets);
    rep.count("prog.boundary_draws", po.interp.boundaryDraws);
    rep.count("prog.ambiguous_skipped", po.interp.ambiguous);
    rep.count("prog.uncertain_draws", po.interp.uncertainDraws);
    rep.count("prog.noise_branches_adopted", po.interp.noiseBranches);
    rep.count("prog.noncanonical_draw_counts", po.interp.noncanonicalDraws);
    rep.count("rng.words_drawn", g_rng.wordsDrawn);
    rep.count("rng.unstaged_words", g_rng.unstagedDrawn);
    if (po.status == 1) rep.count("prog.ended_with_runtime_error");
    if (po.status == 0) rep.count("prog.ended_normally");
    if (po.desync) rep.count("prog.desync_foreign_or_own");
    for (auto& f : po.findings)
        if (f.owner != property) rep.count("prog.foreign_findings");
    for (auto& o : plan.ops) rep.count(std::string("op.") + qh::kindName(o.kind));
    for (auto& o : plan.ops) if (o.kind == qh::GATE && o.loop >= 2) rep.count("op.gate_in_for_loop");
    for (auto& o : plan.ops) if (o.kind == qh::GATE && o.argEffect) rep.count(o.argEffect == 1 ? "op.rotation_whose_angle_argument_resets_the_target" : "op.rotation_whose_angle_argument_measures_the_target");
    for (auto& o : plan.ops) if (o.kind == qh::GATE && o.loop > 1000) rep.count("op.gate_in_loop_of_more_than_2^20_iterations");
    for (auto& o : plan.ops) if ((o.kind == qh::GATE || o.kind == qh::IFGATE) && o.gate >= 4 && qh::angleComputed(o)) rep.count("op.rotation_by_non_finite_angle");
    if (cls == "harness_rejected") {
        rep.count("harness.rejected_program");
        fprintf(stderr, "rejected (run %llu): %s\n", (unsigned long long)run, detail.c_str());
        return;
    }
    // program probes of C06 on a sample of runs
    if (property == "C06" && run % 32 == 9 && cls.empty()) {
        sim::Rng pg(opt.seed, "c06probe", run);
        C06Probe cp;
        cp.variant = (int)pg.below(3);
        cp.depth = pg.range(1, 3);
        cp.seed = opt.seed ^ (run * 0x9e3779b97f4a7c15ull);
        rep.count(cp.variant == 2 ? "probe.shot_loop_with_offending_branch" : "probe.recursive_declarations");
        std::string c1, d1, c2, d2;
        if (!c06ProbeCheck(cp, c1, d1) && c1 != "harness_rejected") {
            c06ProbeCheck(cp, c2, d2);
            sim::Violation v;
            v.cls = c1;
            v.signature = "probe:" + c1;
            v.detail = d1;
            v.reproducible = c2 == c1;
            v.plan = c06ProbeJson(cp);
            rep.violations.push_back(std::move(v));
            return;
        }
        if (c1 == "harness_rejected") { rep.count("probe.rejected_by_front_end"); fprintf(stderr, "C06 probe rejected: %s\n", d1.c_str()); }
    }
    // class-shape probe of C03 on a sample of runs
    if (property == "C03" && run % 32 == 7 && cls.empty()) {
        sim::Rng sg(opt.seed, "shape", run);
        ShapePlan sp;
        int depth = sg.range(1, 3);
        for (int l = 0; l < depth; ++l) {
            std::vector<int> lv;
            int a = (int)sg.below(3);
            lv.push_back(a);
            if (sg.chance(0.5)) { int b = (int)sg.below(3); if (b != a) lv.push_back(b); }
            sp.levels.push_back(lv);
        }
        sp.objects = sg.range(1, 2);
        sp.seed = opt.seed ^ run;
        rep.count("shape.class_shape_probes");
        std::set<int> names;
        bool shadow = false;
        for (auto& l : sp.levels) for (int n : l) { if (!names.insert(n).second) shadow = true; }
        if (shadow) rep.count("shape.field_name_redeclared_by_a_derived_class");
        std::string c1, d1, c2, d2;
        if (!shapeCheck(sp, c1, d1)) {
            if (c1 == "harness_rejected") { rep.count("shape.rejected_by_front_end"); fprintf(stderr, "shape program rejected (run %llu): %s\n", (unsigned long long)run, d1.c_str()); }
            else {
                shapeCheck(sp, c2, d2);
                sim::Violation v;
                v.cls = c1;
                v.signature = "shape:" + c1;
                v.detail = d1;
                v.reproducible = c2 == c1 && d2 == d1;
                v.plan = shapeJson(sp);
                rep.violations.push_back(std::move(v));
                return;
            }
        }
    }
    // CLI clause of C02 on a sample of runs: the shot loop's table against the returned bits
    if (property == "C02" && run % 16 == 5 && cls.empty()) {
        sim::Rng tk(opt.seed, "tracked_cli", run);
        TrackedCli t;
        t.k = tk.range(1, 6);
        static const int shotChoices[] = {1, 2, 3, 5, 9};
        t.shots = shotChoices[tk.below(5)];
        static const int angles[] = {1, 6, 7, 8, 9, 10, 11, 12};
        t.angle = angles[tk.below(8)];
        t.annotate = tk.chance(0.4);
        t.seed = opt.seed;
        t.run = run;
        rep.count("cli.tracked_table_checks");
        if (t.k > 1 && t.shots > 1) rep.count("cli.tracked_scope_left_several_times_per_shot_in_multi_shot_run");
        std::string d1, d2;
        bool ok1 = trackedCliCheck(t, d1);
        if (!ok1) {
            bool ok2 = trackedCliCheck(t, d2);
            sim::Violation v;
            v.cls = "tracked_table_differs_from_returned_bits";
            v.signature = "cli:tracked_table_differs_from_returned_bits";
            v.detail = d1;
            v.reproducible = !ok2 && d1 == d2;
            v.plan = trackedCliJson(t);
            rep.violations.push_back(std::move(v));
            return;
        }
    }
    // CLI clause of C05 on a sample of runs
    if (property == "C05" && run % 8 == 1 && cls.empty() && po.status == 0) {
        std::string d;
        rep.count("cli.qasm_file_checks");
        int shots = (run % 16 == 1) ? 0 : 2;
        int spelling = (int)((run / 24) % 3);
        g_cliCommaLocale = (run / 72) % 2 == 1;
        if (g_cliCommaLocale && commaLocaleAvailable()) rep.count("cli.run_under_comma_decimal_locale");
        rep.count(spelling == 1 ? "cli.source_named_through_symlink_dotdot" : spelling == 2 ? "cli.source_named_relative_with_dotdot" : "cli.source_named_absolute");
        if (!cliQasmFileCheck(plan, shots, d, spelling)) { cls = "qasm_file_differs_from_emit_qasm"; detail = d; }
    }
    sim::Hash h;
    h.add(po.evlog.h);
    h.add(sim::fnv1a(qh::render(plan).source));
    for (auto w : g_rng.history) h.add(w);
    rep.sig = h.h;
    rep.nontrivial = g_rng.wordsDrawn > 0 || po.interp.reuseEvents > 0 || po.status == 1;
    if (run < 48) {
        Json s = Json::object();
        Json names = Json::array();
        for (auto& o : plan.ops) names.push(std::string(qh::kindName(o.kind)) + (o.kind >= qh::GATE ? std::string(" ") + qh::handleExpr(o.h) : ""));
        s.set("run", Json((unsigned long long)run)).set("level", "program").set("ops", names).set("words_drawn", Json((unsigned long long)g_rng.wordsDrawn)).set("end", po.status == 0 ? "normal" : "runtime error");
        rep.sample = s.dump();
    }
    if (cls.empty()) return;
    // shrink: drop ops (keeping the plan well-formed is the interpreter's job: invalid candidates are rejected by a dry check)
    int budget = 200;
    for (auto& o : plan.ops) if (o.loop > 1000) budget = 12;   // every re-execution of a loop of 2^20 iterations takes seconds
    bool cliCls = cls == "qasm_file_differs_from_emit_qasm";
    auto valid = [&](const std::vector<qh::Op>& ops) {
        // declarations are numbered in op order: dropping a declaration renumbers later ones, so only
        // non-declaration ops may be dropped, and DROP must stay before nothing uses the object
        std::vector<int> alive;  // decl kinds
        std::vector<bool> isAlive;
        for (auto& o : ops) {
            if (qh::isDecl(o.kind)) { if ((o.kind == qh::ALIAS || o.kind == qh::PORT) && !(o.h2.decl < (int)alive.size() && isAlive[(size_t)o.h2.decl])) return false; alive.push_back(o.kind); isAlive.push_back(true); continue; }
            if (o.kind == qh::CYCLE) continue;
            auto ok = [&](const qh::Handle& h) { return h.decl < (int)alive.size() && isAlive[(size_t)h.decl]; };
            if (!ok(o.h)) return false;
            if ((o.kind == qh::CX || o.kind == qh::REBIND) && !ok(o.h2)) return false;
            if (o.kind == qh::DROP) isAlive[(size_t)o.h.decl] = false;
        }
        // every object must be dropped before the end
        for (size_t d = 0; d < alive.size(); ++d)
            if (isAlive[d] && (alive[d] == qh::NEWOBJ1 || alive[d] == qh::NEWOBJ2)) return false;
        return true;
    };
    std::function<bool(const std::vector<qh::Op>&)> fails = [&](const std::vector<qh::Op>& ops) {
        // keep declarations (renumbering), drop only others
        size_t declsA = 0, declsB = 0;
        for (auto& o : plan.ops) if (qh::isDecl(o.kind)) ++declsA;
        for (auto& o : ops) if (qh::isDecl(o.kind)) ++declsB;
        if (declsA != declsB) return false;
        if (!valid(ops)) return false;
        // bit variables used by IFGATE must still be defined before use
        std::set<int> defined;
        for (auto& o : ops) {
            if (o.kind == qh::MEAS_EXPR && o.bitvar >= 0) defined.insert(o.bitvar);
            if (o.kind == qh::IFGATE && !defined.count(o.cond)) return false;
        }
        qh::Plan c = plan;
        c.ops = ops;
        std::string d;
        if (cliCls) { std::string dd; return !cliQasmFileCheck(c, (run % 16 == 1) ? 0 : 2, dd, (int)((run / 24) % 3)); }
        return progClass(c, property, opt.seed, run, d) == cls;
    };
    std::vector<qh::Op> min = sim::ddmin<qh::Op>(plan.ops, fails, budget);
    qh::Plan mp = plan;
    mp.ops = min;
    std::string d1, d2;
    std::string c1, c2;
    if (cliCls) {
        // re-evaluate the file clause twice on the minimised plan
        std::string e1, e2;
        bool f1 = !cliQasmFileCheck(mp, (run % 16 == 1) ? 0 : 2, e1, (int)((run / 24) % 3)), f2 = !cliQasmFileCheck(mp, (run % 16 == 1) ? 0 : 2, e2, (int)((run / 24) % 3));
        c1 = f1 ? cls : "";
        c2 = f2 ? cls : "";
        d1 = e1;
        d2 = e2;
    }
    else { c1 = progClass(mp, property, opt.seed, run, d1); c2 = progClass(mp, property, opt.seed, run, d2); }
    sim::Violation v;
    v.cls = cls;
    v.signature = "prog:" + cls;
    v.detail = d1.empty() ? detail : d1;
    v.reproducible = c1 == cls && c2 == cls && d1 == d2;
    v.plan = planJson(false, {}, mp);
    v.plan.set("rng_seed", Json((unsigned long long)opt.seed)).set("rng_run", Json((unsigned long long)run)).set("cli_shots", (run % 16 == 1) ? 0 : 2).set("cli_spelling", (int)((run / 24) % 3)).set("cli_comma_locale", (run / 72) % 2 == 1);
    rep.violations.push_back(std::move(v));
}

void calibrateOrientation() {
    g_rng.reset(1, 0);
    g_rng.install();
    auto branch = [&](double r) {
        runtime::QasmSimulator s(false);
        s.allocateQubit();
        s.allocateQubit();
        s.h(0);
        s.cx(0, 1);
        g_rng.clearStaged();
        g_rng.stage64(refq::unitToBits(r));
        s.reset(0);
        g_rng.clearStaged();
        // branch one leaves q1 = 1: amplitude at index 2
        return std::abs(s.m_state[2]) > 0.5 ? 1 : 0;
    };
    // asymmetric weights make the orientation visible: use ry(pi/3): p1 = 0.25
    auto branchAsym = [&](double r) {
        runtime::QasmSimulator s(false);
        s.allocateQubit();
        s.allocateQubit();
        s.ry(0, M_PI / 3);
        s.cx(0, 1);
        g_rng.clearStaged();
        g_rng.stage64(refq::unitToBits(r));
        s.reset(0);
        g_rng.clearStaged();
        return std::abs(s.m_state[2]) > 0.5 ? 1 : 0;
    };
    (void)branch;
    int a = branchAsym(0.1), b = branchAsym(0.5), c = branchAsym(0.9);
    if (a == 1 && b == 0 && c == 0) g_orientation = 0;       // one iff r < p1
    else if (a == 0 && b == 0 && c == 1) g_orientation = 1;  // one iff r >= 1 - p1
    else g_orientation = -1;
    rngs::Provider::uninstall();
}

int doReplay(const sim::Options& opt) {
    std::string txt;
    if (!sim::readFile(opt.replay, txt)) { fprintf(stderr, "cannot read %s\n", opt.replay.c_str()); return 2; }
    Json file;
    if (!Json::parse(txt, file)) { fprintf(stderr, "bad json\n"); return 2; }
    const Json& pj = file.has("plan") ? file.at("plan") : file;
    std::string property = opt.property.empty() ? file.at("engine_property").asStr() : opt.property;
    uint64_t seed = pj.at("rng_seed").asU64(1), run = pj.at("rng_run").asU64(0);
    std::string cls, detail;
    if (pj.at("level").asStr() == "c06_probe") {
        C06Probe cp;
        cp.variant = (int)pj.at("variant").asInt();
        cp.depth = (int)pj.at("depth").asInt();
        cp.seed = seed;
        if (c06ProbeCheck(cp, cls, detail) || cls == "harness_rejected") cls.clear();
    } else if (pj.at("level").asStr() == "class_shape") {
        ShapePlan sp = shapeFrom(pj);
        if (!shapeCheck(sp, cls, detail)) { if (cls == "harness_rejected") cls.clear(); }
        else cls.clear();
    } else if (pj.at("level").asStr() == "cli_tracked") {
        TrackedCli t;
        t.k = (int)pj.at("calls_per_shot").asInt();
        t.shots = (int)pj.at("shots").asInt();
        t.angle = (int)pj.at("angle").asInt();
        t.annotate = pj.at("annotate").asBool();
        t.seed = seed;
        t.run = run;
        if (!trackedCliCheck(t, detail)) cls = "tracked_table_differs_from_returned_bits";
    } else if (pj.at("level").asStr() == "simulator") {
        std::vector<SimOp> ops;
        for (auto& e : pj.at("ops").a) ops.push_back(simOpFrom(e));
        g_rng.reset(seed, run);
        g_rng.install();
        SimStats st;
        g_simLogOn = !pj.has("log_on") || pj.at("log_on").asBool(true);
        cls = simClass(ops, property, detail, st);
    } else {
        qh::Plan p = qh::fromJson(pj.at("history"));
        if (pj.has("source_text") && pj.at("source_text").asStr() != qh::render(p).source) { fprintf(stderr, "renderer drift; refusing\n"); return 2; }
        cls = progClass(p, property, seed, run, detail);
        if (cls.empty() && file.at("violation").at("class").asStr() == "qasm_file_differs_from_emit_qasm") {
            std::string d;
            g_cliCommaLocale = pj.has("cli_comma_locale") && pj.at("cli_comma_locale").asBool();
            if (!cliQasmFileCheck(p, (int)pj.at("cli_shots").asInt(), d, pj.has("cli_spelling") ? (int)pj.at("cli_spelling").asInt() : 0)) { cls = "qasm_file_differs_from_emit_qasm"; detail = d; }
        }
    }
    if (cls.empty()) { printf("REPLAY ok\n"); return 0; }
    printf("REPLAY violation class=%s\n  %s\n", cls.c_str(), detail.c_str());
    return 1;
}

}  // namespace

int main(int argc, char** argv) {
    sim::Options opt = sim::parseOptions(argc, argv);
    if (opt.property.empty()) opt.property = "C02";
    if (opt.flavour == "plain") opt.flavour = VERIF_FLAVOUR;
    g_scratch = std::string(getenv("TMPDIR") ? getenv("TMPDIR") : "/tmp") + "/blochsim.qhist." + std::to_string(getpid());
    bool freshProcessPlan = false;
    if (!opt.replay.empty()) {
        std::string peek;
        if (sim::readFile(opt.replay, peek) && (peek.find("\"fresh_process\": true") != std::string::npos || peek.find("\"fresh_process\":true") != std::string::npos)) freshProcessPlan = true;
    }
    if (freshProcessPlan) g_orientation = -1;   // no calibration run: the history must be the first quantum operations of this process
    else calibrateOrientation();
    if (!opt.replay.empty()) {
        sim::mkdirs(g_scratch);
        int rc = doReplay(opt);
        std::string cmd = "rm -rf '" + g_scratch + "'";
        if (system(cmd.c_str())) {}
        return rc;
    }
    g_bigReg = opt.mode == "bigreg";
    bool thorough = opt.tier == "thorough";
    if (g_bigReg) { if (opt.workers > 8) opt.workers = 8; if (opt.runs <= 0) opt.runs = thorough ? 6000 : 400; }
    uint64_t nRuns = thorough ? 8000000 : (opt.property == "C05" ? 120000 : 200000);
    double cap = thorough ? 480 : 45;
    if (opt.runs > 0) nRuns = (uint64_t)opt.runs;
    if (opt.wallCap > 0) cap = opt.wallCap;
    printf("qhist property=%s tier=%s VERIF_SEED=%llu runs=%llu workers=%d reset_orientation=%d\n", opt.property.c_str(), opt.tier.c_str(), (unsigned long long)opt.seed, (unsigned long long)nRuns, opt.workers, g_orientation);
    fflush(stdout);
    sim::RunFn fn = [&](uint64_t run, sim::RunReport& rep) { runOne(opt, run, rep); };
    auto workerInit = [&]() {
        g_scratch += ".w" + std::to_string(getpid());
        sim::mkdirs(g_scratch);
        atexit([]() {});
    };
    if (opt.selftestDeterminism) {
        sim::Options o1 = opt, o2 = opt;
        o1.workers = 1 + (int)(opt.seed % 3);
        uint64_t n = opt.runs > 0 ? (uint64_t)opt.runs : 3000;
        sim::BatchResult a = sim::runBatch(o1, n, fn, 0, 3, workerInit), b = sim::runBatch(o2, n, fn, 0, 3, workerInit);
        bool same = a.hashOfAll == b.hashOfAll && a.runs == b.runs && a.counters == b.counters;
        printf("determinism: runs=%llu hashA=%016llx hashB=%016llx %s\n", (unsigned long long)a.runs, (unsigned long long)a.hashOfAll, (unsigned long long)b.hashOfAll, same ? "SAME" : "DIFFERENT");
        return same ? 0 : 2;
    }
    sim::BatchResult R = sim::runBatch(opt, nRuns, fn, cap, 3, workerInit);
    {
        std::string cmd = "rm -rf " + g_scratch + ".w*";
        if (system(cmd.c_str())) {}
    }
    sim::CheckSummary S = sim::gateViolations(opt, R);
    std::set<std::string> crashSeen;
    for (auto& c : R.crashes) {
        std::string cls = sim::classifyCrash(c.status, c.stderrTail);
        bool confirmed = false;
        if ((c.run % 3) == 0 || g_bigReg) {
            // a simulator-level history: regenerate it from (seed, run) and confirm the crash in a fresh process
            sim::Rng gen(opt.seed, "gen", c.run);
            std::vector<SimOp> ops = genSimHistory(gen, opt.property);
            Json plan = planJson(true, ops, qh::Plan{});
            plan.set("rng_seed", Json((unsigned long long)opt.seed)).set("rng_run", Json((unsigned long long)c.run)).set("log_on", opt.property == "C05" || c.run % 4 != 3);
            std::string path = sim::replayPath(opt, c.run);
            Json f = Json::object();
            f.set("engine_property", opt.property).set("seed", Json((unsigned long long)opt.seed)).set("run", Json((unsigned long long)c.run)).set("flavour", opt.flavour).set("mode", opt.mode)
                .set("violation", Json::object().set("class", cls).set("signature", "sim:" + cls).set("detail", c.stderrTail.substr(0, 3000))).set("plan", plan);
            sim::writeFile(path, f.dump(1) + "\n");
            sim::ChildResult r = sim::execReplay(opt, path);
            if (sim::classifyCrash(r.status, r.err) == cls && !cls.empty()) {
                confirmed = true;
                if (!crashSeen.count(cls) && S.violations < 5) {
                    crashSeen.insert(cls);
                    S.violations++;
                    S.lines.push_back("VIOLATION property=" + opt.property + " replay=" + path);
                    S.lines.push_back("  class=" + cls + " signature=sim:" + cls);
                    S.exitCode = 1;
                }
            }
        }
        if (!confirmed) {
            fprintf(stderr, "HARNESS: worker died in run %llu: %s\n%s\n", (unsigned long long)c.run, cls.c_str(), c.stderrTail.substr(0, 1500).c_str());
            if (S.exitCode == 0) S.exitCode = 2;
        }
    }
    // vacuity guard
    std::vector<std::string> mandatory = {"rng.words_drawn", "sim.measures", "sim.resets", "sim.entangled_resets", "sim.boundary_draws", "prog.boundaries_checked", "prog.reuse_events", "prog.genuine_resets", "prog.boundary_draws"};
    if (opt.property == "C06") { mandatory.push_back("prog.ended_with_runtime_error"); mandatory.push_back("sim.guard_probes"); }
    if (opt.property == "C06") { mandatory.push_back("probe.recursive_declarations"); mandatory.push_back("probe.shot_loop_with_offending_branch"); }
    if (opt.property == "C03") { mandatory.push_back("shape.class_shape_probes"); mandatory.push_back("shape.field_name_redeclared_by_a_derived_class"); }
    if (opt.property == "C02") { mandatory.push_back("cli.tracked_table_checks"); mandatory.push_back("cli.tracked_scope_left_several_times_per_shot_in_multi_shot_run"); }
    if (opt.property == "C05") { mandatory.push_back("cli.qasm_file_checks"); mandatory.push_back("cli.source_named_through_symlink_dotdot"); }
    if (R.runs >= 1000 && !g_bigReg) {
        for (auto& m : mandatory)
            if (R.counters[m] == 0) { fprintf(stderr, "HARNESS: mandatory reach counter %s is zero\n", m.c_str()); if (S.exitCode == 0) S.exitCode = 2; }
    }
    if (R.counters["harness.rejected_program"] > 0) { fprintf(stderr, "HARNESS: %llu generated programs rejected by the front end\n", (unsigned long long)R.counters["harness.rejected_program"]); if (S.exitCode == 0) S.exitCode = 2; }
    if (R.counters["rng.unstaged_words"] > 0 && S.violations == 0) fprintf(stderr, "note: %llu words were drawn that the plan had not staged\n", (unsigned long long)R.counters["rng.unstaged_words"]);

    Json ev = sim::evidenceSkeleton(opt, R,
                                    "one run = one quantum history: a third are direct call sequences on QasmSimulator, the rest are generated Bloch programs (declarations, object-owned qubits, gates through variable/array/parameter/method/field paths, measure, reset, object death and index reuse, conditionals on measured bits) executed by the real evaluator with every random word scripted; a reference statevector model runs in lockstep and is compared at every call / main-level statement boundary; non-trivial = the history consumed random words, reused a qubit index or ended in a runtime error; distinct = distinct hash of (source or call sequence, words drawn, per-boundary event log)",
                                    S.violations);
    Json& cov = const_cast<Json&>(ev.at("coverage"));
    cov.set("faults_fired", Json::object()
                                .set("boundary_draws_forced", Json((unsigned long long)(R.counters["sim.boundary_draws"] + R.counters["prog.boundary_draws"])))
                                .set("entangled_resets", Json((unsigned long long)(R.counters["sim.entangled_resets"] + R.counters["prog.entangled_resets"])))
                                .set("qubit_index_reuse", Json((unsigned long long)R.counters["prog.reuse_events"]))
                                .set("guard_probes", Json((unsigned long long)R.counters["sim.guard_probes"]))
                                .set("runs_ended_by_guard_error", Json((unsigned long long)R.counters["prog.ended_with_runtime_error"])));
    cov.set("flavour", opt.flavour + (g_bigReg ? " (14-16 qubit simulator-level histories only)" : ""));
    cov.set("ambiguous_skipped", Json((unsigned long long)(R.counters["sim.ambiguous_skipped"] + R.counters["prog.ambiguous_skipped"])));
    cov.set("reset_orientation_calibrated", g_orientation);
    cov.set("components", Json::object()
                              .set("real", Json::arrayOf(std::vector<std::string>{"QasmSimulator", "RuntimeEvaluator", "lexer/parser/analyser", "GC timer thread (under the serialising scheduler)", "cli::run (for the .qasm file clause)"}))
                              .set("stub", Json::arrayOf(std::vector<std::string>{"random words behind measurement/reset draws (scripted through hook H1)", "steady clock", "updater (no-op)"})));
    cov.set("known_findings_hit", Json((unsigned long long)S.knownHits));
    cov.set("violation_details", S.details);
    ev.set("assumptions", Json::arrayOf(std::vector<std::string>{
                              "the reference model implements the qelib1 unitaries with rotations as exp(-i t P/2); lockstep comparison tolerance 1e-9, replay tolerance 1e-6 per rotation (six printed decimals)",
                              "draw-to-outcome consistency is judged only when the code consumed the canonical two words per draw; otherwise only zero-probability outcomes and draw-free random choices are flagged",
                              "violations of oracles owned by another property end the run uncounted (they are reported by that property's check)"}));
    sim::writeEvidence(opt, ev);
    sim::printSummary(S);
    printf("qhist done: runs=%llu distinct=%zu wall=%.1fs violations=%llu exit=%d\n", (unsigned long long)R.runs, R.distinct.size(), R.wall, (unsigned long long)S.violations, S.exitCode);
    return S.exitCode;
}
