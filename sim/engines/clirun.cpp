// Engine clirun: C17 (@tracked/@shots accounting through cli::run) and C18 (shots are isolated: N
// executions of one analysed program equal N fresh parse-analyse-run cycles).
//
// Real code: cli::run (argument handling, ModuleLoader, analyser, shot loop, aggregation, table
// printing), RuntimeEvaluator, QasmSimulator, GC timer thread (under the scheduler).
// Simulated: the outcome of every measure statement (words scripted through hook H1 per executed
// measure statement), the steady clock (Elapsed line), the updater (stub).
#include <unistd.h>

#include <iostream>
#include <sstream>

#include "bloch/cli/cli.hpp"
#include "bloch/compiler/lexer/lexer.hpp"
#include "bloch/compiler/parser/parser.hpp"
#include "bloch/compiler/semantics/semantic_analyser.hpp"
#include "bloch/runtime/runtime_evaluator.hpp"
#include "bloch/update/update_manager.hpp"
#include "sim/core/core.hpp"
#include "sim/gen/classprog.hpp"
#include "sim/gen/qhistory.hpp"
#include "sim/seams/gcsched.hpp"
#include "sim/seams/rngscript.hpp"

using namespace bloch;
using sim::Json;

namespace bloch::update {
void checkForUpdatesIfDue(const std::string&) {}
bool performSelfUpdate(const std::string&, const std::string&) { return false; }
}  // namespace bloch::update

namespace {

rngs::Provider g_rng;
std::string g_scratch;

struct CoutCapture {
    std::ostringstream out, err;
    std::streambuf *oldOut, *oldErr;
    CoutCapture() : oldOut(std::cout.rdbuf(out.rdbuf())), oldErr(std::cerr.rdbuf(err.rdbuf())) {}
    ~CoutCapture() { std::cout.rdbuf(oldOut); std::cerr.rdbuf(oldErr); }
};

// ================================================================================================
// C17: shot programs
// ================================================================================================
enum SegKind { S_LOCAL = 0, S_LOOP, S_HELPER, S_ARRAY, S_OBJ1, S_OBJ2, S_BLOCK, S_ECHO, S_UNTRACKED, S_CYCLE_OWNER, S_COND, S_MULTI, S_FACTORY, S_RETURN_BLOCK, S_ECHO_MEAS, S_COUNT };
const char* segName(int k) {
    static const char* n[] = {"tracked_local", "tracked_in_loop", "tracked_in_helper", "tracked_array", "object_tracked_field", "object_tracked_array_field", "tracked_in_block", "echo", "untracked_qubit", "tracked_owner_held_by_garbage_cycle", "tracked_in_measurement_dependent_scope", "tracked_multi_declaration", "tracked_owner_returned_by_factory", "tracked_in_block_left_by_return", "tracked_measured_inside_echo_argument"};
    return k >= 0 && k < S_COUNT ? n[k] : "?";
}
struct Seg {
    int kind = 0;
    int prep = 0;       // 0 none, 1 x, 2 h, 3 ry(1.1), 4 bell (arrays)
    int meas = 1;       // locals: 0 not measured, 1 measured, 2 measured then reset, 3 measured, reset, measured again ; arrays: 0 none, 1 all, 2 first element only, 3 elementwise
    int reps = 1;       // loop iterations / helper calls / object lifetimes
    bool viaDestroy = false;
    bool echoDtor = false;  // S_CYCLE_OWNER: the owned objects echo from their destructor (order against other echoes depends on when the cycle is collected)
};
struct ShotPlan {
    std::vector<Seg> segs;
    int annShots = 0;   // @shots(N), 0 = absent
    int cliShots = 0;   // --shots=M, 0 = absent
    int echoMode = 0;   // 0 absent, 1 auto, 2 all, 3 none
    uint64_t outcomeSeed = 0;
};

Json planJson(const ShotPlan& p) {
    Json a = Json::array();
    for (auto& s : p.segs) a.push(Json::object().set("seg", segName(s.kind)).set("kind", s.kind).set("prep", s.prep).set("meas", s.meas).set("reps", s.reps).set("destroy", s.viaDestroy).set("echo_dtor", s.echoDtor));
    return Json::object().set("engine", "clirun").set("what", "shot_plan").set("segments", a).set("annotation_shots", p.annShots).set("flag_shots", p.cliShots).set("echo_mode", p.echoMode).set("outcome_seed", sim::hex64(p.outcomeSeed));
}
ShotPlan planFrom(const Json& j) {
    ShotPlan p;
    for (auto& e : j.at("segments").a) {
        Seg s;
        s.kind = (int)e.at("kind").asInt();
        s.prep = (int)e.at("prep").asInt();
        s.meas = (int)e.at("meas").asInt();
        s.reps = (int)e.at("reps").asInt(1);
        s.viaDestroy = e.at("destroy").asBool();
        s.echoDtor = e.has("echo_dtor") && e.at("echo_dtor").asBool();
        p.segs.push_back(s);
    }
    p.annShots = (int)j.at("annotation_shots").asInt();
    p.cliShots = (int)j.at("flag_shots").asInt();
    p.echoMode = (int)j.at("echo_mode").asInt();
    p.outcomeSeed = strtoull(j.at("outcome_seed").asStr().c_str(), nullptr, 16);
    return p;
}

std::string prepCode(int prep, const std::string& e) {
    switch (prep) {
        case 1: return "x(" + e + "); ";
        case 2: return "h(" + e + "); ";
        case 3: return "ry(" + e + ", 1.1f); ";
    }
    return "";
}

std::string renderShot(const ShotPlan& p) {
    std::string s;
    s += "class T1 {\n    @tracked public qubit q;\n    public constructor() -> T1 = default;\n    public function ms() -> void { measure this.q; }\n}\n";
    s += "class TE {\n    @tracked public qubit q;\n    public constructor() -> TE = default;\n    public destructor() -> void { echo(\"te released\"); }\n}\n";
    s += "class CE {\n    public CE next;\n    public TE t;\n    public constructor() -> CE { this.next = null; this.t = new TE(); return this; }\n}\n";
    s += "class CN {\n    public CN next;\n    public T1 t;\n    public constructor() -> CN { this.next = null; this.t = new T1(); return this; }\n}\n";
    s += "class T2 {\n    @tracked public qubit[2] qs;\n    public constructor() -> T2 = default;\n    public function ms() -> void { measure this.qs; }\n}\n";
    std::string body;
    for (size_t i = 0; i < p.segs.size(); ++i) {
        const Seg& g = p.segs[i];
        std::string id = std::to_string(i);
        auto localBody = [&](const std::string& v) {
            std::string b = prepCode(g.prep, v);
            if (g.meas >= 1) b += "measure " + v + "; ";
            if (g.meas >= 2) b += "reset " + v + "; ";
            if (g.meas >= 3) b += "measure " + v + "; ";
            return b;
        };
        switch (g.kind) {
            case S_LOCAL: body += "    @tracked qubit t" + id + "; " + localBody("t" + id) + "\n"; break;
            case S_LOOP: body += "    for (int i" + id + " = 0; i" + id + " < " + std::to_string(g.reps) + "; i" + id + " = i" + id + " + 1) { @tracked qubit l" + id + "; " + localBody("l" + id) + "}\n"; break;
            case S_HELPER:
                s += "function help" + id + "() -> void { @tracked qubit h" + id + "; " + localBody("h" + id) + "}\n";
                for (int r = 0; r < g.reps; ++r) body += "    help" + id + "();\n";
                break;
            case S_BLOCK: body += "    { @tracked qubit b" + id + "; " + localBody("b" + id) + "}\n"; break;
            case S_UNTRACKED: body += "    qubit u" + id + "; " + localBody("u" + id) + "\n"; break;
            case S_ARRAY: {
                std::string v = "a" + id;
                body += "    @tracked qubit[2] " + v + "; ";
                if (g.prep == 4) body += "h(" + v + "[0]); cx(" + v + "[0], " + v + "[1]); ";
                else body += prepCode(g.prep, v + "[0]") + prepCode(g.prep, v + "[1]");
                if (g.meas == 1) body += "measure " + v + "; ";
                else if (g.meas == 2) body += "measure " + v + "[0]; ";
                else if (g.meas == 3) body += "measure " + v + "[1]; measure " + v + "[0]; ";
                else if (g.meas == 4) body += "measure " + v + "[1]; ";
                body += "\n";
                break;
            }
            case S_OBJ1:
                for (int r = 0; r < g.reps; ++r) {
                    std::string v = "o" + id + "_" + std::to_string(r);
                    body += "    T1 " + v + " = new T1(); " + prepCode(g.prep, v + ".q");
                    if (g.meas >= 1) body += v + ".ms(); ";
                    body += (g.viaDestroy ? "destroy " + v + ";" : v + " = null;") + "\n";
                }
                break;
            case S_OBJ2:
                for (int r = 0; r < g.reps; ++r) {
                    std::string v = "p" + id + "_" + std::to_string(r);
                    body += "    T2 " + v + " = new T2(); ";
                    if (g.prep == 4) body += "h(" + v + ".qs[0]); cx(" + v + ".qs[0], " + v + ".qs[1]); ";
                    else body += prepCode(g.prep, v + ".qs[0]") + prepCode(g.prep, v + ".qs[1]");
                    if (g.meas == 1) body += v + ".ms(); ";
                    else if (g.meas == 2) body += "measure " + v + ".qs[0]; ";
                    body += (g.viaDestroy ? "destroy " + v + ";" : v + " = null;") + "\n";
                }
                break;
            case S_ECHO: body += "    echo(\"e" + id + "\");\n"; break;
            case S_RETURN_BLOCK:
                // the tracked declaration sits in an if-block (or a loop body) that is left through 'return'
                if (g.viaDestroy) s += "function hr" + id + "(int c) -> int { for (int k = 0; k < 3; k = k + 1) { @tracked qubit rb" + id + "; " + localBody("rb" + id) + "if (k == c) { return k; } } return 9; }\n";
                else s += "function hr" + id + "(int c) -> int { if (c > 0) { @tracked qubit rb" + id + "; " + localBody("rb" + id) + "return 1; } return 0; }\n";
                for (int r = 0; r < g.reps; ++r) body += "    int zr" + id + "_" + std::to_string(r) + " = hr" + id + "(1);\n";
                break;
            case S_ECHO_MEAS:
                // the measurement is a side effect of evaluating an echo argument: it happens whether or not echo output is shown
                body += "    @tracked qubit em" + id + "; " + prepCode(g.prep, "em" + id) + "echo(measure em" + id + ");\n";
                break;
            case S_FACTORY:
                // an object with a tracked field is built by a function and returned; it ends when the variable is cleared
                s += "function mkT" + id + "() -> T1 { T1 t = new T1(); " + prepCode(g.prep, "t.q") + (g.meas >= 1 ? "t.ms(); " : "") + "return t; }\n";
                for (int r = 0; r < g.reps; ++r) body += "    T1 f" + id + "_" + std::to_string(r) + " = mkT" + id + "(); f" + id + "_" + std::to_string(r) + " = null;\n";
                break;
            case S_MULTI:
                // one annotation, two declared qubits: both are tracked
                body += "    @tracked qubit ma" + id + ", mb" + id + "; " + localBody("ma" + id) + localBody("mb" + id) + "\n";
                break;
            case S_COND:
                // the tracked declaration is reached only when a measured bit is 1: a shot may record nothing at all
                body += "    qubit g" + id + "; h(g" + id + "); bit c" + id + " = measure g" + id + "; if (c" + id + ") { @tracked qubit k" + id + "; " + localBody("k" + id) + "}\n";
                break;
            case S_CYCLE_OWNER:
                // two nodes in a reference cycle each own a T1; the cycle is dropped, so the owners die when the
                // collector reclaims it (at the latest in the collection that ends the run). meas==1: the first
                // owner's qubit is measured; viaDestroy: a collection is requested while the cycle is still
                // reachable (after the last allocation of the helper).
                s += "function mkc" + id + "() -> void { T1 tmp = new T1(); " + std::string(g.echoDtor ? "CE ca = new CE(); CE cb = new CE(); " : "CN ca = new CN(); CN cb = new CN(); ") + "ca.next = cb; cb.next = ca; " + prepCode(g.prep, "ca.t.q") + (g.meas >= 1 ? (g.echoDtor ? "measure ca.t.q; " : "ca.t.ms(); ") : "") +
                     (g.viaDestroy ? "destroy tmp; int zz = 1; " : "tmp = null; ") + "}\n";
                for (int r = 0; r < g.reps; ++r) body += "    mkc" + id + "();\n";
                break;
        }
    }
    if (p.annShots > 0) s += "@shots(" + std::to_string(p.annShots) + ")\n";
    s += "function main() -> void {\n    int zz = 0;\n" + body + "}\n";
    return s;
}

ShotPlan genShot(sim::Rng& g) {
    ShotPlan p;
    int n = g.range(1, 7);
    int qubits = 0;
    for (int i = 0; i < n; ++i) {
        Seg s;
        s.kind = (int)g.below(S_COUNT);
        s.prep = (int)g.below(4);
        s.meas = (int)g.below(4);
        s.reps = 1;
        if (s.kind == S_ARRAY && g.chance(0.25)) s.meas = 4;
        if (s.kind == S_LOOP || s.kind == S_HELPER) s.reps = g.range(1, 3);
        if (s.kind == S_OBJ1 || s.kind == S_OBJ2) { s.reps = g.range(1, 3); s.viaDestroy = g.chance(0.4); if (s.meas > 2) s.meas = 1; }
        if (s.kind == S_RETURN_BLOCK) { s.reps = g.range(1, 2); s.viaDestroy = g.chance(0.4); if (s.meas == 3 && s.viaDestroy) s.meas = 1; }
        if (s.kind == S_FACTORY) { s.reps = g.range(1, 2); if (s.meas > 1) s.meas = 1; if (s.meas == 0 && s.prep >= 2) s.prep -= 2; }
        if (s.kind == S_CYCLE_OWNER) {
            s.reps = g.range(1, 2);
            s.viaDestroy = g.chance(0.6);
            if (s.meas > 1) s.meas = 1;
            // an unmeasured superposed qubit would make the owner's death draw a reset branch at collection
            // time, i.e. at a schedule-dependent point between scripted measure statements
            if (s.meas == 0 && s.prep >= 2) s.prep = s.prep - 2;
            s.echoDtor = g.chance(0.4);
        }
        if (s.kind == S_ARRAY || s.kind == S_OBJ2) { if (g.chance(0.3)) s.prep = 4; }
        if (s.kind == S_OBJ2 && s.meas == 3) s.meas = 1;
        int need = (s.kind == S_RETURN_BLOCK ? 2 * s.reps : s.kind == S_ARRAY || s.kind == S_MULTI || s.kind == S_FACTORY ? 2 : (s.kind == S_OBJ1 || s.kind == S_OBJ2) ? 2 : s.kind == S_CYCLE_OWNER ? 3 : s.kind == S_ECHO ? 0 : 1) * ((s.kind == S_LOOP || s.kind == S_HELPER) ? s.reps : 1);
        if (qubits + need > 9) continue;
        qubits += need;
        p.segs.push_back(s);
    }
    if (p.segs.empty()) { Seg s; s.kind = S_LOCAL; s.prep = 2; s.meas = 1; p.segs.push_back(s); }
    if (g.chance(0.06)) {   // only measurement-dependent tracked scopes (plus echoes): some shots record nothing
        std::vector<Seg> only;
        for (auto& s : p.segs) if (s.kind == S_COND || s.kind == S_ECHO || s.kind == S_UNTRACKED) only.push_back(s);
        Seg c; c.kind = S_COND; c.prep = (int)g.below(4); c.meas = (int)g.below(3);
        only.push_back(c);
        p.segs = only;
    }
    static const int shotChoices[] = {1, 2, 3, 17};
    int cfg = (int)g.below(4);
    if (cfg == 0 || cfg == 2) p.annShots = shotChoices[g.below(4)];
    if (cfg == 1 || cfg == 2) p.cliShots = g.chance(0.4) && p.annShots ? p.annShots : shotChoices[g.below(4)];
    p.echoMode = (int)g.below(4);
    p.outcomeSeed = g.next();
    return p;
}

// ---- model of tracked accounting ------------------------------------------------------------------
using Table = std::map<std::string, std::map<std::string, long>>;

struct OutcomeSource {
    sim::Rng rng;
    explicit OutcomeSource(uint64_t seed, int shot) : rng(seed, "outcome", (uint64_t)shot) {}
    int next() { return (int)(rng.next() & 1); }
};

// The desired outcome bit of the k-th measured qubit of a shot; consumed identically by the model and
// by the yield hook that scripts the real draws.
std::vector<int> desiredBits(const ShotPlan& p, int shot, size_t n) {
    OutcomeSource src(p.outcomeSeed, shot);
    std::vector<int> b(n);
    for (auto& x : b) x = src.next();
    return b;
}

void modelShot(const ShotPlan& p, int shot, Table& tab, std::vector<std::string>& echoes) {
    std::vector<int> bits = desiredBits(p, shot, 256);
    size_t bi = 0;
    auto measureOne = [&](int prep, int prev) -> int {   // prev: outcome of the bell partner or -1
        int b = bits[bi++];
        if (prev >= 0) return prev;
        if (prep == 0) return 0;
        if (prep == 1) return 1;
        return b;
    };
    auto local = [&](const Seg& g) -> std::string {
        // returns the tracked outcome at scope exit
        std::string out = "?";
        if (g.meas >= 1) out = std::to_string(measureOne(g.prep, -1));
        if (g.meas >= 2) out = "?";
        if (g.meas >= 3) out = std::to_string(measureOne(0, -1));  // after reset the qubit is |0>
        return out;
    };
    for (size_t i = 0; i < p.segs.size(); ++i) {
        const Seg& g = p.segs[i];
        std::string id = std::to_string(i);
        switch (g.kind) {
            case S_LOCAL: tab["qubit t" + id][local(g)]++; break;
            case S_LOOP: for (int r = 0; r < g.reps; ++r) tab["qubit l" + id][local(g)]++; break;
            case S_HELPER: for (int r = 0; r < g.reps; ++r) tab["qubit h" + id][local(g)]++; break;
            case S_BLOCK: tab["qubit b" + id][local(g)]++; break;
            case S_UNTRACKED: (void)local(g); break;
            case S_ARRAY:
            case S_OBJ2: {
                int reps = g.kind == S_OBJ2 ? g.reps : 1;
                for (int r = 0; r < reps; ++r) {
                    std::string out = "?";
                    int prep = g.prep == 4 ? 2 : g.prep;
                    if (g.meas == 1) {
                        int a = measureOne(prep, -1);
                        int b = measureOne(prep, g.prep == 4 ? a : -1);
                        out = std::to_string(a) + std::to_string(b);
                    } else if (g.meas == 2) {
                        (void)measureOne(prep, -1);
                    } else if (g.meas == 3) {
                        int b = measureOne(prep, -1);
                        int a = measureOne(prep, g.prep == 4 ? b : -1);
                        out = std::to_string(a) + std::to_string(b);
                    } else if (g.meas == 4) {
                        (void)measureOne(prep, -1);   // only the element with the higher index is measured: still '?'
                    }
                    tab[g.kind == S_ARRAY ? "qubit[] a" + id : std::string("T2.qs")][out]++;
                }
                break;
            }
            case S_OBJ1:
                for (int r = 0; r < g.reps; ++r) {
                    std::string out = "?";
                    if (g.meas >= 1) out = std::to_string(measureOne(g.prep, -1));
                    tab["T1.q"][out]++;
                }
                break;
            case S_ECHO: echoes.push_back("e" + id); break;
            case S_RETURN_BLOCK:
                for (int r = 0; r < g.reps; ++r) {
                    if (g.viaDestroy) { tab["qubit rb" + id][local(g)]++; tab["qubit rb" + id][local(g)]++; }   // iterations k = 0 and k = 1 (returns in the second)
                    else tab["qubit rb" + id][local(g)]++;
                }
                break;
            case S_ECHO_MEAS: {
                int b = measureOne(g.prep, -1);
                tab["qubit em" + id][std::to_string(b)]++;
                echoes.push_back(std::to_string(b));
                break;
            }
            case S_FACTORY:
                for (int r = 0; r < g.reps; ++r) {
                    std::string out = "?";
                    if (g.meas >= 1) out = std::to_string(measureOne(g.prep, -1));
                    tab["T1.q"][out]++;
                }
                break;
            case S_MULTI: {
                std::string a = local(g), b = local(g);
                tab["qubit ma" + id][a]++;
                tab["qubit mb" + id][b]++;
                break;
            }
            case S_COND: {
                int c = measureOne(2, -1);
                if (c) tab["qubit k" + id][local(g)]++;
                break;
            }
            case S_CYCLE_OWNER:
                for (int r = 0; r < g.reps; ++r) {
                    std::string out = "?";
                    if (g.meas >= 1) out = std::to_string(measureOne(g.prep, -1));
                    tab["T1.q"]["?"]++;   // tmp: never measured
                    tab[g.echoDtor ? "TE.q" : "T1.q"][out]++;   // ca.t
                    tab[g.echoDtor ? "TE.q" : "T1.q"]["?"]++;   // cb.t: never measured
                    if (g.echoDtor) { echoes.push_back("te released"); echoes.push_back("te released"); }
                }
                break;
        }
    }
}

// ---- yield hook for CLI runs: scripts the draws of each executed measure statement ----------------
struct CliScript {
    const ShotPlan* plan = nullptr;
    const void* mainFirst = nullptr;
    int shot = -1;
    std::vector<int> bits;
    size_t bi = 0;
    uint64_t measureStmts = 0;
    bool active = false;
};
CliScript g_cs;

void cliObserver(runtime::RuntimeEvaluator* ev, void* stmt, uint64_t, bool) {
    if (!g_cs.active) return;
    // a destructor run by the collector executes its statements between this hook's call for the interrupted
    // statement and that statement's own draws: words staged for it must survive (shot programs never measure in destructors)
    if (ev && ev->m_inDestructor) return;
    auto* st = static_cast<compiler::Statement*>(stmt);
    if (!g_cs.mainFirst) g_cs.mainFirst = stmt;
    if (stmt == g_cs.mainFirst) {
        ++g_cs.shot;
        g_cs.bits = desiredBits(*g_cs.plan, g_cs.shot, 256);
        g_cs.bi = 0;
    }
    g_rng.clearStaged();
    if (auto* ms = dynamic_cast<compiler::MeasureStatement*>(st)) {
        // one desired bit per measured qubit: r = 0 selects 1 whenever p1 > 0, r = max selects 0 whenever p1 < 1
        int n = 1;
        if (ms->qubit) {
            // whole-array measure: two draws (arrays in shot programs have two elements)
            if (auto* var = dynamic_cast<compiler::VariableExpression*>(ms->qubit.get())) { if (!var->name.empty() && var->name[0] == 'a') n = 2; }
            if (auto* mem = dynamic_cast<compiler::MemberAccessExpression*>(ms->qubit.get())) { if (mem->member == "qs") n = 2; }
        }
        for (int k = 0; k < n && g_cs.bi < g_cs.bits.size(); ++k) g_rng.stage64(g_cs.bits[g_cs.bi++] ? 0ull : ~0ull);
        ++g_cs.measureStmts;
    } else if (auto* es = dynamic_cast<compiler::EchoStatement*>(st)) {
        if (es->value && dynamic_cast<compiler::MeasureExpression*>(es->value.get()) && g_cs.bi < g_cs.bits.size()) {
            g_rng.stage64(g_cs.bits[g_cs.bi++] ? 0ull : ~0ull);
            ++g_cs.measureStmts;
        }
    } else if (auto* vd = dynamic_cast<compiler::VariableDeclaration*>(st)) {
        if (vd->initializer && dynamic_cast<compiler::MeasureExpression*>(vd->initializer.get()) && g_cs.bi < g_cs.bits.size()) {
            g_rng.stage64(g_cs.bits[g_cs.bi++] ? 0ull : ~0ull);
            ++g_cs.measureStmts;
        }
    }
}

struct CliResult {
    int rc = 0;
    std::string out, err;
    uint64_t measureStmts = 0;
    int shotsSeen = 0;
};

CliResult runCli(const ShotPlan& p, const std::string& src, uint64_t run) {
    std::string file = g_scratch + "/shot.bloch";
    sim::writeFile(file, src);
    std::vector<std::string> args = {"bloch"};
    if (p.cliShots > 0) args.push_back("--shots=" + std::to_string(p.cliShots));
    static const char* em[] = {"", "--echo=auto", "--echo=all", "--echo=none"};
    if (p.echoMode > 0) args.push_back(em[p.echoMode]);
    args.push_back(file);
    std::vector<char*> av;
    for (auto& a : args) av.push_back(const_cast<char*>(a.c_str()));
    g_cs = CliScript{};
    g_cs.plan = &p;
    g_cs.active = true;
    g_rng.reset(p.outcomeSeed, run);
    g_rng.install();
    gcs::g_observer = &cliObserver;
    gcs::install();
    gcs::Schedule s;
    s.generative = true;
    s.genSeed = p.outcomeSeed;
    s.meanIncNs = run % 4 == 0 ? 25000000 : 1000000;
    s.notifyLost = run % 3 == 0;
    CliResult R;
    {
        CoutCapture cap;
        gcs::beginRun(s);
        R.rc = cli::run((int)av.size(), av.data(), cli::Context{});
        gcs::endRun();
        R.out = cap.out.str();
        R.err = cap.err.str();
    }
    g_cs.active = false;
    R.measureStmts = g_cs.measureStmts;
    R.shotsSeen = g_cs.shot + 1;
    rngs::Provider::uninstall();
    return R;
}

struct ParsedOutput {
    std::vector<std::string> echoLines;
    bool hasHeader = false;
    int shots = -1;
    Table counts;
    std::map<std::string, std::map<std::string, std::string>> probText;
    std::string error;
};

std::string trim(const std::string& s) {
    size_t a = s.find_first_not_of(" \t"), b = s.find_last_not_of(" \t");
    return a == std::string::npos ? "" : s.substr(a, b - a + 1);
}

ParsedOutput parseOutput(const std::string& out) {
    ParsedOutput P;
    std::vector<std::string> lines;
    {
        std::string cur;
        for (char c : out) { if (c == '\n') { lines.push_back(cur); cur.clear(); } else cur.push_back(c); }
        if (!cur.empty()) lines.push_back(cur);
    }
    size_t i = 0;
    for (; i < lines.size(); ++i) {
        if (lines[i].rfind("Shots: ", 0) == 0) break;
        P.echoLines.push_back(lines[i]);
    }
    if (i == lines.size()) return P;
    P.hasHeader = true;
    P.shots = atoi(lines[i].c_str() + 7);
    ++i;
    if (i >= lines.size() || lines[i] != "Backend: Bloch Ideal Simulator") { P.error = "missing Backend line"; return P; }
    ++i;
    if (i >= lines.size() || lines[i].rfind("Elapsed: ", 0) != 0) { P.error = "missing Elapsed line"; return P; }
    ++i;
    while (i < lines.size()) {
        if (lines[i].empty()) { ++i; continue; }
        std::string var = lines[i++];
        if (i + 1 >= lines.size() || lines[i].find("outcome") != 0 || lines[i + 1].find("---") != 0) { P.error = "malformed table for '" + var + "'"; return P; }
        i += 2;
        while (i < lines.size() && !lines[i].empty()) {
            const std::string& l = lines[i++];
            size_t a = l.find(" | "), b = a == std::string::npos ? a : l.find(" | ", a + 3);
            if (b == std::string::npos) { P.error = "malformed table row '" + l + "'"; return P; }
            std::string outcome = trim(l.substr(0, a)), cnt = trim(l.substr(a + 3, b - a - 3)), prob = trim(l.substr(b + 3));
            if (P.counts[var].count(outcome)) { P.error = "outcome '" + outcome + "' listed twice for '" + var + "'"; return P; }
            P.counts[var][outcome] = atol(cnt.c_str());
            P.probText[var][outcome] = prob;
        }
    }
    return P;
}

std::string tableStr(const Table& t) {
    std::string s;
    for (auto& a : t) {
        s += a.first + "{";
        for (auto& b : a.second) s += b.first + ":" + std::to_string(b.second) + " ";
        s += "} ";
    }
    return s;
}

struct Verdict {
    std::string cls, detail;
};

// Library level: one evaluator, tracked table of that shot against the model.
Verdict libraryCheck(const ShotPlan& p, const std::string& src, uint64_t run, uint64_t& measures) {
    std::unique_ptr<compiler::Program> prog;
    try {
        compiler::Lexer lx(src);
        auto toks = lx.tokenize();
        compiler::Parser ps(std::move(toks));
        prog = ps.parse();
        compiler::SemanticAnalyser an;
        an.analyse(*prog);
    } catch (const std::exception& e) {
        return {"harness_rejected", e.what()};
    }
    g_cs = CliScript{};
    g_cs.plan = &p;
    g_cs.active = true;
    g_rng.reset(p.outcomeSeed, run);
    g_rng.install();
    gcs::g_observer = &cliObserver;
    gcs::install();
    gcs::Schedule s;
    s.generative = true;
    s.genSeed = p.outcomeSeed ^ 5;
    s.meanIncNs = 1000000;
    Table got;
    std::vector<std::string> echoes;
    std::string failure;
    {
        CoutCapture cap;
        gcs::beginRun(s);
        {
            runtime::RuntimeEvaluator ev;
            try {
                ev.execute(*prog);
            } catch (const std::exception& e) {
                failure = e.what();
            }
            for (auto& a : ev.trackedCounts())
                for (auto& b : a.second) got[a.first][b.first] += b.second;
        }
        gcs::endRun();
        std::string o = cap.out.str(), cur;
        for (char c : o) { if (c == '\n') { echoes.push_back(cur); cur.clear(); } else cur.push_back(c); }
    }
    g_cs.active = false;
    measures = g_cs.measureStmts;
    rngs::Provider::uninstall();
    if (!failure.empty()) return {"shot_program_failed", failure};
    Table want;
    std::vector<std::string> wantEcho;
    modelShot(p, 0, want, wantEcho);
    if (got != want) return {"per_shot_tracked_table_differs", "evaluator recorded " + tableStr(got) + " but the program's scope exits and owner deaths give " + tableStr(want)};
    bool unorderedEcho = false;
    for (auto& sg : p.segs) unorderedEcho |= sg.echoDtor;
    if (unorderedEcho) { std::sort(echoes.begin(), echoes.end()); std::sort(wantEcho.begin(), wantEcho.end()); }
    if (echoes != wantEcho) return {"single_run_echo_differs", std::to_string(echoes.size()) + " echo lines printed, " + std::to_string(wantEcho.size()) + " expected"};
    return {};
}

Verdict cliCheck(const ShotPlan& p, const std::string& src, uint64_t run, CliResult* outR = nullptr) {
    CliResult R = runCli(p, src, run);
    if (outR) *outR = R;
    if (R.rc != 0) return {"cli_failed", "cli::run returned " + std::to_string(R.rc) + ": " + R.err.substr(0, 300)};
    ParsedOutput P = parseOutput(R.out);
    if (!P.error.empty()) return {"output_malformed", P.error};
    bool shotsProvided = p.annShots > 0 || p.cliShots > 0;
    int S = p.annShots > 0 ? p.annShots : (p.cliShots > 0 ? p.cliShots : 1);
    // model
    Table want;
    std::vector<std::vector<std::string>> echoOfShot;   // echoed measurement results differ from shot to shot
    for (int s = 0; s < S; ++s) {
        std::vector<std::string> e;
        modelShot(p, s, want, e);
        echoOfShot.push_back(e);
    }
    if (shotsProvided) {
        if (!P.hasHeader) return {"no_shot_summary", "a shot count was given but no 'Shots:' summary was printed"};
        if (P.shots != S) return {"shots_line_wrong", "'Shots: " + std::to_string(P.shots) + "' printed, expected " + std::to_string(S) + (p.annShots > 0 && p.cliShots > 0 ? " (@shots takes precedence over --shots)" : "")};
        if (R.shotsSeen != S) return {"executed_shot_count_wrong", std::to_string(R.shotsSeen) + " executions of main observed, expected " + std::to_string(S)};
        if (P.counts != want) return {"aggregate_table_differs", "printed " + tableStr(P.counts) + " but the per-shot tables add up to " + tableStr(want)};
        for (auto& var : P.counts) {
            long total = 0;
            for (auto& oc : var.second) total += oc.second;
            double psum = 0;
            for (auto& oc : var.second) {
                const std::string& txt = P.probText[var.first][oc.first];
                double pv = atof(txt.c_str());
                if (!(pv >= 0.0 && pv <= 1.0)) return {"probability_out_of_range", var.first + " outcome " + oc.first + ": prob " + txt};
                if (std::fabs(pv - (double)oc.second / (double)total) > 0.00051) return {"probability_not_count_over_total", var.first + " outcome " + oc.first + ": prob " + txt + " for count " + std::to_string(oc.second) + " of " + std::to_string(total)};
                psum += pv;
            }
            if (std::fabs(psum - 1.0) > 0.002 * (double)var.second.size()) return {"probabilities_do_not_sum_to_one", var.first + ": " + std::to_string(psum)};
        }
    } else {
        if (P.hasHeader) return {"unexpected_shot_summary", "no shot count given but a summary was printed"};
    }
    // echo policy, judged only where the property's sentence is unambiguous
    bool single = !shotsProvided || S == 1;
    int expectCopies = -1;  // -1 = not judged
    if (p.echoMode == 2) expectCopies = S;
    else if (p.echoMode == 0 || p.echoMode == 1) expectCopies = single ? 1 : 0;
    else if (p.echoMode == 3 && !single) expectCopies = 0;
    if (expectCopies >= 0) {
        std::vector<std::string> want2;
        for (int c = 0; c < expectCopies && c < (int)echoOfShot.size(); ++c) want2.insert(want2.end(), echoOfShot[(size_t)c].begin(), echoOfShot[(size_t)c].end());
        bool unorderedEcho = false;
        for (auto& sg : p.segs) unorderedEcho |= sg.echoDtor;
        if (unorderedEcho) { std::sort(P.echoLines.begin(), P.echoLines.end()); std::sort(want2.begin(), want2.end()); }
        if (P.echoLines != want2) return {"echo_policy_violated", "echo mode " + std::to_string(p.echoMode) + ", " + std::to_string(S) + " shot(s): " + std::to_string(P.echoLines.size()) + " echo lines printed, expected " + std::to_string(want2.size())};
    }
    return {};
}

// ================================================================================================
// C18: shots are isolated
// ================================================================================================
struct ExecResult {
    int status = 0;
    std::string message;
    std::vector<std::string> echoes;
    std::string out, err, tracked, qasm;
    int qubits = 0;
    std::vector<std::complex<double>> state;
    uint64_t yields = 0;
    bool operator==(const ExecResult& o) const {
        return status == o.status && message == o.message && echoes == o.echoes && out == o.out && err == o.err && tracked == o.tracked && qasm == o.qasm && qubits == o.qubits && state == o.state && yields == o.yields;
    }
    std::string diff(const ExecResult& o) const {
        if (status != o.status) return "status " + std::to_string(status) + " vs " + std::to_string(o.status) + " (" + message + " | " + o.message + ")";
        if (message != o.message) return "diagnostic '" + message + "' vs '" + o.message + "'";
        if (echoes != o.echoes || out != o.out) {
            const auto& a = echoes.empty() ? std::vector<std::string>{out} : echoes;
            const auto& b = o.echoes.empty() ? std::vector<std::string>{o.out} : o.echoes;
            for (size_t i = 0; i < std::min(a.size(), b.size()); ++i)
                if (a[i] != b[i]) return "echo line " + std::to_string(i) + ": '" + a[i] + "' vs '" + b[i] + "'";
            return "echo count " + std::to_string(a.size()) + " vs " + std::to_string(b.size());
        }
        if (err != o.err) return "stderr differs: '" + err.substr(0, 160) + "' vs '" + o.err.substr(0, 160) + "'";
        if (tracked != o.tracked) return "tracked table " + tracked + " vs " + o.tracked;
        if (qubits != o.qubits) return "qubits allocated " + std::to_string(qubits) + " vs " + std::to_string(o.qubits);
        if (qasm != o.qasm) return "emitted QASM differs";
        if (state != o.state) return "final simulator state differs";
        if (yields != o.yields) return "statements executed " + std::to_string(yields) + " vs " + std::to_string(o.yields);
        return "";
    }
};

std::unique_ptr<compiler::Program> parseOnly(const std::string& src, std::string& err) {
    try {
        compiler::Lexer lx(src);
        auto toks = lx.tokenize();
        compiler::Parser ps(std::move(toks));
        return ps.parse();
    } catch (const std::exception& e) {
        err = e.what();
        return nullptr;
    }
}

ExecResult execOn(compiler::Program& prog, uint64_t wordSeed, uint64_t schedSeed, bool collectLog, bool quiet = false, bool keepEcho = false) {
    ExecResult R;
    g_rng.reset(wordSeed, 0);
    g_rng.install();
    gcs::g_observer = nullptr;
    gcs::install();
    gcs::Schedule s;
    s.generative = true;
    s.genSeed = schedSeed;
    static const int64_t means[] = {0, 1000000, 25000000, 200000000};
    s.meanIncNs = means[schedSeed % 4];
    s.notifyLost = (schedSeed >> 3) % 3 == 0;
    CoutCapture cap;
    gcs::beginRun(s);
    {
        runtime::RuntimeEvaluator ev(collectLog);
        if (quiet) { ev.setEcho(keepEcho); ev.setWarnOnExit(false); }
        try {
            ev.execute(prog);
        } catch (const support::BlochError& e) {
            R.status = e.category == support::ErrorCategory::Runtime ? 1 : 2;
            R.message = e.what();
        } catch (const std::exception& e) {
            R.status = 3;
            R.message = e.what();
        }
        R.echoes = ev.m_echoBuffer;
        std::map<std::string, std::map<std::string, int>> sorted;
        for (auto& a : ev.trackedCounts())
            for (auto& b : a.second) sorted[a.first][b.first] = b.second;
        for (auto& a : sorted)
            for (auto& b : a.second) R.tracked += a.first + "=" + b.first + ":" + std::to_string(b.second) + ";";
        R.qasm = ev.getQasm();
        R.qubits = ev.m_sim.m_qubits;
        R.state = ev.m_sim.m_state;
    }
    gcs::endRun();
    R.yields = gcs::g_stats.yields;
    R.out = cap.out.str();
    R.err = cap.err.str();
    rngs::Provider::uninstall();
    return R;
}

struct IsoPlan {
    int family = 0;            // 0 class program, 1 quantum history, 2 mixed isolation program
    classprog::Plan cp;
    qh::Plan qp;
    int variantMask = 0;       // for family 2
    int K = 2;
    bool reanalyse = false;
    bool collectLogLastOnly = false;
    bool echoAll = false;       // asMultiShot only: like '--shots=N --echo=all' - echo stays on, so the echoed lines are compared as well
    bool asMultiShot = false;   // side A configured like the CLI's shot loop (echo off, no warnings, log only on the last execution);
                                // side B a default fresh run; only configuration-independent observables are compared
    uint64_t wordSeed = 0, schedSeed = 0;
};

// A program built to make leaks visible: statics mutated per run, float formatting, generic
// specialisations with diamond inference, const-sized arrays, objects owning qubits inside garbage
// cycles, tracked variables, measured-then-reset qubits.
std::string isoProgram(int mask) {
    std::string s;
    s += "class Stats { public static int runs = 0; public static int released = 0; public static int probes = 0; public static Probe parked = null; public static float acc = 0.5f; public constructor() -> Stats = default; }\n";
    s += "class Probe { @tracked public qubit q; public int id; public constructor() -> Probe { Stats.probes = Stats.probes + 1; this.id = Stats.probes; return this; } public destructor() -> void { Stats.released = Stats.released + 1; echo(\"probe \" + this.id); } }\n";
    s += "class Link { public Link next; public Probe p; public constructor() -> Link { this.next = null; this.p = new Probe(); return this; } }\n";
    s += "class Box<T> { public T v; public constructor(T v) -> Box<T> { this.v = v; return this; } public function get() -> T { return this.v; } public function fresh() -> int { Cnt c = new Cnt(); return c.id; } }\n";
    // a class that happens to be called like Box's type parameter
    s += "class T { public int v = 7; public constructor() -> T { return this; } }\n";
    s += "class Cnt { public static int made = 0; public int id; public constructor() -> Cnt { Cnt.made = Cnt.made + 1; this.id = Cnt.made; return this; } }\n";
    s += "function cycle() -> void { Link a = new Link(); Link b = new Link(); a.next = b; b.next = a; }\n";
    s += "class Shape { public constructor() -> Shape = default; }\nclass Circle extends Shape { public constructor() -> Circle { super(); return this; } }\n";
    s += "class Label { public string what; public constructor(Shape s) -> Label { this.what = \"generic shape\"; return this; } public constructor(Circle c) -> Label { this.what = \"circle\"; return this; } }\n";
    s += "function mkLabel(Shape s) -> Label { return new Label(s); }\n";
    s += "function rec(int n) -> int { if (n == 0) { int[] xs = {1}; return xs[5]; } return rec(n - 1) + 1; }\n";
    // a chain declared most-derived first (the class table must not depend on, or change, the order of declaration)
    // (their static initialisers echo, so the order in which an execution initialises the classes is part of its output)
    s += "static class Note { public static function mark(int k) -> int { echo(\"init \" + k); return k; } }\n";
    s += "class Z3 extends Z2 { public static int tag3 = Note.mark(3); public int c = 3; public constructor() -> Z3 { super(); return this; } public function all() -> int { return this.a + this.b + this.c; } }\n";
    s += "class Z2 extends Z1 { public static int tag2 = Note.mark(2); public int b = 2; public constructor() -> Z2 { super(); return this; } }\n";
    s += "class Z1 { public static int tag1 = Note.mark(1); public int a = 1; public constructor() -> Z1 { return this; } }\n";
    // a static final field whose initialiser measures a qubit: evaluated afresh by every execution, with that execution's draws
    s += "static class Coin { public static function flip() -> bit { qubit c; h(c); bit r = measure c; return r; } }\n";
    s += "class Cfg { public static final bit side = Coin.flip(); public static final bit other = Coin.flip(); public constructor() -> Cfg { return this; } }\n";
    s += "function main() -> void {\n";
    s += "    Stats.runs = Stats.runs + 1;\n    echo(\"runs=\" + Stats.runs);\n";
    if (mask & 1) s += "    echo(0.25f);\n    echo(2.0f);\n    echo(\"ratio=\" + 0.75f);\n    Stats.acc = Stats.acc + 0.25f;\n    echo(Stats.acc);\n";
    if (mask & 2) s += "    Box<int> bi = new Box<>(7);\n    Box<string> bs = new Box<string>(\"s\");\n    echo(bi.get() + 1);\n    echo(bs.get());\n    Box<Cnt> bc = new Box<>(new Cnt());\n    echo(bc.get().id);\n";
    if (mask & 4) s += "    final int n = 3;\n    int[n] arr;\n    arr[1] = Stats.runs;\n    echo(arr);\n    final int m = n + 1;\n    float[m] fa;\n    echo(fa);\n";
    if (mask & 8) {
        s += "    cycle();\n    cycle();\n";
        s += "    for (int i = 0; i < 20; i = i + 1) { Cnt c = new Cnt(); if (i == 17) { echo(\"rel=\" + Stats.released); } }\n";
        s += "    Probe pr = new Probe();\n    h(pr.q);\n    bit pb = measure pr.q;\n    echo(pb);\n    destroy pr;\n    echo(\"rel2=\" + Stats.released);\n";
    }
    if (mask & 16) s += "    @tracked qubit t;\n    h(t);\n    measure t;\n    reset t;\n    x(t);\n    bit tb = measure t;\n    echo(tb);\n    @tracked qubit[2] tr;\n    h(tr[0]);\n    cx(tr[0], tr[1]);\n    measure tr;\n";
    if (mask & 64) s += "    echo(mkLabel(new Circle()).what);\n    echo(mkLabel(new Shape()).what);\n";
    if (mask & 128) s += "    echo(\"deep\");\n    echo(rec(" + std::to_string(300 + 50 * ((mask >> 8) & 3)) + "));\n";
    if (mask & 1024) s += "    Probe sp = new Probe();\n    qubit keep = sp.q;\n    destroy sp;\n    x(keep);\n    Probe sp2 = new Probe();\n    bit sr = measure sp2.q;\n    echo(\"stale=\" + sr);\n    destroy sp2;\n";
    if (mask & 16384) s += "    T tt = new T();\n    echo(\"T.v=\" + tt.v);\n    Box<int> bt = new Box<int>(3);\n    echo(bt.fresh() > 0);\n    T tu = new T();\n    echo(tu.v);\n";
    if (mask & 32768) s += "    Stats.parked = new Probe();\n    Probe rec = new Probe();\n    x(rec.q);\n    measure rec.q;\n    destroy rec;\n";
    if (mask & 8192) s += "    echo(\"side=\" + Cfg.side);\n    echo(\"other=\" + Cfg.other);\n";
    if (mask & 4096) s += "    Z3 z = new Z3();\n    echo(\"z=\" + z.all());\n";
    if (mask & 32) s += "    Cnt c1 = new Cnt();\n    Cnt c2 = new Cnt();\n    echo(c2.id);\n    echo(Cnt.made);\n";
    s += "    echo(\"made=\" + Cnt.made);\n    echo(\"rel3=\" + Stats.released);\n";
    // an int literal out of range on an executed path: every execution must end with the same located runtime error
    if (mask & 2048) s += "    if (Stats.runs > 0) { int big = 4000000000; echo(big); }\n";
    s += "}\n";
    return s;
}

// Programs the pinned analyser rejects but a more permissive one might accept (array sizes that are
// final but not compile-time constants). If the front end rejects them the run is skipped and counted;
// if it accepts them, the isolation oracle applies to them like to any other program.
std::string speculativeProgram(int v) {
    switch (v % 3) {
        case 0: return "function main() -> void {\n    qubit q;\n    h(q);\n    bit b = measure q;\n    final int n = 1 + (int) b;\n    int[n] slots;\n    echo(b);\n    echo(slots);\n}\n";
        case 1: return "function pick(int k) -> int { return k + 1; }\nfunction main() -> void {\n    qubit q;\n    h(q);\n    bit b = measure q;\n    final int n = pick((int) b);\n    float[n] fs;\n    echo(fs);\n}\n";
        default: return "class C { public static int c = 0; public constructor() -> C = default; }\nfunction main() -> void {\n    qubit q;\n    h(q);\n    bit b = measure q;\n    C.c = C.c + 1 + (int) b;\n    final int n = C.c;\n    bit[n] bs;\n    echo(bs);\n}\n";
    }
}

std::string isoSource(const IsoPlan& p) {
    if (p.family == 3) return speculativeProgram(p.variantMask);
    if (p.family == 0) return classprog::render(p.cp);
    if (p.family == 1) return qh::render(p.qp, true).source;
    return isoProgram(p.variantMask);
}

Json isoJson(const IsoPlan& p) {
    Json j = Json::object();
    j.set("engine", "clirun").set("what", "isolation_plan").set("family", p.family).set("K", p.K).set("reanalyse", p.reanalyse).set("log_last_only", p.collectLogLastOnly).set("word_seed", sim::hex64(p.wordSeed)).set("sched_seed", sim::hex64(p.schedSeed)).set("variant_mask", p.variantMask).set("as_multishot", p.asMultiShot).set("echo_all", p.echoAll);
    if (p.family == 0) j.set("program", classprog::toJson(p.cp));
    if (p.family == 1) j.set("history", qh::toJson(p.qp));
    j.set("source_text", isoSource(p));
    return j;
}
IsoPlan isoFrom(const Json& j) {
    IsoPlan p;
    p.family = (int)j.at("family").asInt();
    p.K = (int)j.at("K").asInt(2);
    p.reanalyse = j.at("reanalyse").asBool();
    p.collectLogLastOnly = j.at("log_last_only").asBool();
    p.wordSeed = strtoull(j.at("word_seed").asStr().c_str(), nullptr, 16);
    p.schedSeed = strtoull(j.at("sched_seed").asStr().c_str(), nullptr, 16);
    p.variantMask = (int)j.at("variant_mask").asInt();
    p.asMultiShot = j.has("as_multishot") && j.at("as_multishot").asBool();
    p.echoAll = j.has("echo_all") && j.at("echo_all").asBool();
    if (p.family == 0) p.cp = classprog::fromJson(j.at("program"));
    if (p.family == 1) p.qp = qh::fromJson(j.at("history"));
    return p;
}

struct IsoStats {
    uint64_t executions = 0, words = 0, errors = 0;
};

// ExecResult <-> JSON (results travel from forked children to the pristine worker over a pipe)
Json execJson(const ExecResult& r, uint64_t words) {
    sim::Hash h;
    for (auto& v : r.state) { h.addDouble(v.real(), 1e-15); h.addDouble(v.imag(), 1e-15); }
    Json e = Json::array();
    for (auto& l : r.echoes) e.push(l);
    return Json::object().set("status", r.status).set("message", r.message).set("echoes", e).set("out", r.out).set("err", r.err).set("tracked", r.tracked).set("qasm", r.qasm).set("qubits", r.qubits)
        .set("state_hash", sim::hex64(h.h)).set("state_size", Json((unsigned long long)r.state.size())).set("yields", Json((unsigned long long)r.yields)).set("words", Json((unsigned long long)words));
}
struct ExecView {
    ExecResult r;
    std::string stateHash;
    uint64_t words = 0;
    bool reject = false;
    std::string rejectMsg, special;
};
ExecView viewFrom(const Json& j) {
    ExecView v;
    if (j.has("reject")) { v.reject = true; v.rejectMsg = j.at("reject").asStr(); return v; }
    if (j.has("special")) { v.special = j.at("special").asStr(); v.rejectMsg = j.at("detail").asStr(); return v; }
    v.r.status = (int)j.at("status").asInt();
    v.r.message = j.at("message").asStr();
    for (auto& l : j.at("echoes").a) v.r.echoes.push_back(l.asStr());
    v.r.out = j.at("out").asStr();
    v.r.err = j.at("err").asStr();
    v.r.tracked = j.at("tracked").asStr();
    v.r.qasm = j.at("qasm").asStr();
    v.r.qubits = (int)j.at("qubits").asInt();
    v.r.yields = j.at("yields").asU64();
    v.stateHash = j.at("state_hash").asStr() + "/" + std::to_string(j.at("state_size").asU64());
    v.words = j.at("words").asU64();
    return v;
}

// Isolation check. The worker itself never executes Bloch code, so it stays a pristine process image:
// side A (K executions of one analysed tree) runs in one forked child, and each fresh
// parse-analyse-run of side B runs in a forked child of its own. State that leaks through anything that
// outlives an evaluator - the shared tree, or process-wide statics - therefore shows up as a difference,
// and re-evaluating a plan (shrinking, determinism gate) starts from the same pristine image.
void isoSeeds(const IsoPlan& p, int k, uint64_t& ws, uint64_t& ss, bool& log) {
    ws = p.wordSeed + 1000003ull * (uint64_t)k;
    ss = p.schedSeed + 7919ull * (uint64_t)k;
    log = p.collectLogLastOnly ? (k == p.K - 1) : true;
}
// side A: K executions of one analysed tree, in this process
std::string isoSideA(const IsoPlan& p) {
    std::string src = isoSource(p);
    Json arr = Json::array();
    std::string err;
    auto shared = parseOnly(src, err);
    if (!shared) return Json::array().push(Json::object().set("reject", err)).dump();
    try {
        compiler::SemanticAnalyser an;
        an.analyse(*shared);
    } catch (const std::exception& e) {
        return Json::array().push(Json::object().set("reject", std::string(e.what()))).dump();
    }
    for (int k = 0; k < p.K; ++k) {
        uint64_t ws, ss;
        bool log;
        isoSeeds(p, k, ws, ss, log);
        if (p.reanalyse && k > 0) {
            try {
                compiler::SemanticAnalyser an;
                an.analyse(*shared);
            } catch (const std::exception& e) {
                arr.push(Json::object().set("special", "reanalysis_of_executed_program_fails").set("detail", std::string("analysing the same tree again before execution ") + std::to_string(k) + " failed: " + e.what()));
                return arr.dump();
            }
        }
        ExecResult a = execOn(*shared, ws, ss, p.asMultiShot ? (k == p.K - 1) : log, p.asMultiShot, p.echoAll);
        arr.push(execJson(a, g_rng.wordsDrawn));
    }
    return arr.dump();
}
// side B: one fresh parse-analyse-run with the draws and schedule of execution k, in this process
std::string isoSideB(const IsoPlan& p, int k) {
    std::string src = isoSource(p);
    uint64_t ws, ss;
    bool log;
    isoSeeds(p, k, ws, ss, log);
    std::string e2;
    auto fresh = parseOnly(src, e2);
    if (!fresh) return Json::object().set("reject", e2).dump();
    try {
        compiler::SemanticAnalyser an;
        an.analyse(*fresh);
    } catch (const std::exception& e) {
        return Json::object().set("reject", std::string(e.what())).dump();
    }
    ExecResult b = execOn(*fresh, ws, ss, p.asMultiShot ? true : log);
    return execJson(b, g_rng.wordsDrawn).dump();
}
// The heap of a long-lived process is not the tidy heap of a fresh one: freed chunks of many sizes are handed out again
// in an order that has nothing to do with the order of allocation. Every isolation child starts by putting its own
// heap into such a state, from a seed in the plan, so that code which depends on object addresses (ordering, hashing)
// behaves differently from allocation order - in the batch and in a replay alike.
void fragmentHeap(uint64_t seed) {
    sim::Rng fr(seed, "heap", 0);
    std::vector<void*> blocks;
    for (int i = 0; i < 600; ++i) blocks.push_back(malloc(16 + 16 * (size_t)fr.below(24)));
    for (size_t i = blocks.size(); i > 1; --i) std::swap(blocks[i - 1], blocks[(size_t)fr.below(i)]);
    for (size_t i = 0; i < blocks.size(); ++i)
        if (i % 3 != 0) free(blocks[i]);   // a third stays allocated and pins the layout
}
int isoChildMain(const sim::Options& opt) {
    std::string txt;
    Json file;
    if (!sim::readFile(opt.replay, txt) || !Json::parse(txt, file)) { fprintf(stderr, "iso child: cannot read plan %s\n", opt.replay.c_str()); return 2; }
    IsoPlan p = isoFrom(file.has("plan") ? file.at("plan") : file);
    fragmentHeap(p.schedSeed ^ 0x9e3779b97f4a7c15ull);
    std::string out = opt.mode == "iso-A" ? isoSideA(p) : isoSideB(p, atoi(opt.mode.c_str() + 6));
    fwrite(out.data(), 1, out.size(), stdout);
    fflush(stdout);
    return 0;
}
sim::Options g_isoOpt;   // how to start this binary again (self path, property, flavour)

// Neither side runs in the worker or in a process forked from it: each is this binary started afresh (fork + exec, address
// space randomisation off) on the plan file, so the batch, the in-worker re-evaluations and a replay all see the same
// process image. State that leaks through anything that outlives an evaluator - the shared tree, process-wide statics -
// shows up as a difference between side A (K executions of one analysed tree) and the fresh runs of side B.
Verdict isoCheck(const IsoPlan& p, IsoStats& st) {
    std::string planFile = g_scratch + "/iso-plan.json";
    sim::writeFile(planFile, isoJson(p).dump());
    sim::ChildResult ca = sim::execReplay(g_isoOpt, planFile, {"--mode", "iso-A"});
    Json ja;
    if (!ca.exitedOk() || !Json::parse(ca.out, ja) || ja.t != Json::Arr) return {"repeated_execution_crashes", "the process running " + std::to_string(p.K) + " executions of one analysed tree ended with " + ca.describe() + ": " + sim::classifyCrash(ca.status, ca.err)};
    if (!ja.a.empty() && ja.a[0].has("reject")) return {"harness_rejected", ja.a[0].at("reject").asStr()};
    for (int k = 0; k < p.K; ++k) {
        if ((size_t)k >= ja.a.size()) return {"harness_short_result", "side A returned fewer results than executions"};
        ExecView a = viewFrom(ja.a[(size_t)k]);
        if (!a.special.empty()) return {a.special, a.rejectMsg};
        sim::ChildResult cb = sim::execReplay(g_isoOpt, planFile, {"--mode", "iso-B:" + std::to_string(k)});
        Json jb;
        if (!cb.exitedOk() || !Json::parse(cb.out, jb)) return {"harness_fresh_run_crashed", "fresh run " + std::to_string(k) + " ended with " + cb.describe()};
        ExecView b = viewFrom(jb);
        if (b.reject) return {"harness_rejected", b.rejectMsg};
        st.executions += 2;
        st.words += a.words;
        if (a.r.status != 0) ++st.errors;
        a.r.state.clear();
        b.r.state.clear();
        if (p.asMultiShot) {
            // echo buffer, warnings and the QASM log legitimately depend on the configuration
            if (!p.echoAll) { a.r.echoes.clear(); b.r.echoes.clear(); a.r.out.clear(); b.r.out.clear(); }   // stdout holds the flushed echoes only; warnings go to stderr
            a.r.err.clear(); b.r.err.clear();
            a.r.qasm.clear(); b.r.qasm.clear();
        }
        if (!(a.r == b.r) || a.stateHash != b.stateHash) {
            std::string d = a.r.diff(b.r);
            if (d.empty()) d = "final simulator state differs";
            return {"execution_differs_from_fresh_run", "execution " + std::to_string(k) + " of " + std::to_string(p.K) + " on the shared tree vs a fresh parse-analyse-run (fresh process image) with the same draws and schedule: " + d};
        }
    }
    return {};
}

IsoPlan genIso(uint64_t seed, uint64_t run) {
    sim::Rng g(seed, "gen", run), knob(seed, "knob", run);
    IsoPlan p;
    p.family = (int)knob.below(3);
    if (knob.chance(0.04)) p.family = 3;
    static const int ks[] = {2, 3, 5};
    p.K = ks[knob.below(3)];
    p.reanalyse = knob.chance(0.3);
    p.collectLogLastOnly = knob.chance(0.4);
    p.asMultiShot = knob.chance(0.3);
    p.echoAll = p.asMultiShot && knob.chance(0.6);
    p.wordSeed = g.next();
    p.schedSeed = g.next();
    if (p.family == 0) p.cp = classprog::generate(g, knob.chance(0.3), false);
    else if (p.family == 1) {
        qh::GenOptions go;
        go.maxOps = knob.range(6, 24);
        go.maxQubits = knob.range(2, 6);
        go.objectShare = 0.4;
        go.resetShare = 0.15;
        go.tracked = true;
        go.boundaryDrawProb = 0;
        go.guardViolationProb = knob.chance(0.2) ? 0.1 : 0.0;
        p.qp = qh::generate(g, go);
    } else if (p.family == 3) { p.variantMask = (int)knob.below(3); p.K = 5; }
    else p.variantMask = 1 + (int)knob.below(65535);
    return p;
}

// ================================================================================================
void runOne(const sim::Options& opt, uint64_t run, sim::RunReport& rep) {
    rep.count("runs");
    // C18 at the level of the CLI: every fifth run is a multi-shot run of a shot program, and what the shot loop reports must be
    // what that many independent executions add up to (the shot-accounting oracle of C17, restricted to the classes that say so)
    bool c18Cli = opt.property == "C18" && run % 5 == 3;
    if (opt.property == "C17" || c18Cli) {
        sim::Rng g(opt.seed, "gen", run);
        ShotPlan p = genShot(g);
        if (c18Cli && p.annShots <= 1 && p.cliShots <= 1) p.cliShots = 3;
        if (c18Cli) rep.count("c18.cli_shot_loop_runs");
        std::string src = renderShot(p);
        uint64_t measures = 0;
        Verdict v = libraryCheck(p, src, run, measures);
        rep.count("c17.library_level_runs");
        rep.count("c17.measure_statements_scripted", measures);
        CliResult cr;
        if (v.cls.empty()) {
            v = cliCheck(p, src, run, &cr);
            rep.count("c17.cli_runs");
            rep.count("c17.shots_executed", (uint64_t)cr.shotsSeen);
            rep.count("c17.measure_statements_scripted", cr.measureStmts);
        }
        if (v.cls == "harness_rejected") { rep.count("harness.rejected_program"); fprintf(stderr, "rejected (run %llu): %s\n", (unsigned long long)run, v.detail.c_str()); return; }
        if (c18Cli && v.cls != "executed_shot_count_wrong" && v.cls != "aggregate_table_differs" && v.cls != "shots_line_wrong") v.cls.clear();
        for (auto& s : p.segs) {
            rep.count(std::string("seg.") + segName(s.kind));
            if ((s.kind == S_LOOP || s.kind == S_HELPER) && s.reps > 1) rep.count("c17.multi_exit_scopes");
            if (s.kind == S_OBJ1 || s.kind == S_OBJ2 || s.kind == S_CYCLE_OWNER) rep.count("c17.object_owned_tracked_fields");
            if (s.kind == S_CYCLE_OWNER) rep.count("c17.owners_held_by_garbage_cycle");
            if (s.kind == S_CYCLE_OWNER && s.echoDtor) rep.count("c17.echo_from_destructor_run_by_collector");
            if (s.kind == S_FACTORY) rep.count("c17.tracked_owner_returned_by_function");
            if (s.kind == S_RETURN_BLOCK) rep.count("c17.tracked_scope_left_by_return");
            if (s.kind == S_ECHO_MEAS) rep.count("c17.measurement_inside_echo_argument");
        }
        static const char* em[] = {"echo.absent", "echo.auto", "echo.all", "echo.none"};
        rep.count(em[p.echoMode]);
        if (p.annShots && p.cliShots) rep.count(p.annShots == p.cliShots ? "cfg.annotation_and_flag_equal" : "cfg.annotation_and_flag_differ");
        else if (p.annShots) rep.count("cfg.annotation_only");
        else if (p.cliShots) rep.count("cfg.flag_only");
        else rep.count("cfg.no_shot_count");
        sim::Hash h;
        h.add(sim::fnv1a(src));
        h.add((uint64_t)p.annShots * 1000 + (uint64_t)p.cliShots * 10 + (uint64_t)p.echoMode);
        h.add(p.outcomeSeed);
        rep.sig = h.h;
        rep.nontrivial = measures > 0;
        if (run < 48) rep.sample = planJson(p).dump();
        if (v.cls.empty()) return;
        // shrink: drop segments, simplify configuration
        std::string cls = v.cls;
        auto failsWith = [&](const ShotPlan& c) {
            std::string s2 = renderShot(c);
            uint64_t m;
            Verdict a = libraryCheck(c, s2, run, m);
            if (a.cls.empty()) a = cliCheck(c, s2, run);
            return a.cls == cls;
        };
        int budget = 120;
        ShotPlan cur = p;
        std::function<bool(const std::vector<Seg>&)> f = [&](const std::vector<Seg>& segs) {
            if (segs.empty()) return false;
            ShotPlan c = cur;
            c.segs = segs;
            if (failsWith(c)) { cur = c; return true; }
            return false;
        };
        sim::ddmin<Seg>(cur.segs, f, budget);
        for (auto& s : cur.segs) { ShotPlan c = cur; (void)s; for (auto& t : c.segs) if (t.reps > 1) t.reps = 1; if (failsWith(c)) cur = c; break; }
        if (cur.annShots > 2) { ShotPlan c = cur; c.annShots = 2; if (c.cliShots == cur.annShots) c.cliShots = 2; if (failsWith(c)) cur = c; }
        if (cur.cliShots > 2) { ShotPlan c = cur; c.cliShots = 2; if (failsWith(c)) cur = c; }
        std::string s2 = renderShot(cur);
        uint64_t m;
        Verdict a1 = libraryCheck(cur, s2, run, m);
        if (a1.cls.empty()) a1 = cliCheck(cur, s2, run);
        Verdict a2 = libraryCheck(cur, s2, run, m);
        if (a2.cls.empty()) a2 = cliCheck(cur, s2, run);
        sim::Violation vio;
        vio.cls = cls;
        vio.signature = "c17:" + cls;
        vio.detail = a1.detail.empty() ? v.detail : a1.detail;
        vio.reproducible = a1.cls == cls && a2.cls == cls && a1.detail == a2.detail;
        vio.plan = planJson(cur);
        vio.plan.set("source_text", s2).set("rng_run", Json((unsigned long long)run));
        rep.violations.push_back(std::move(vio));
        return;
    }
    // ---- C18 ----
    IsoPlan p = genIso(opt.seed, run);
    IsoStats st;
    Verdict v = isoCheck(p, st);
    if (v.cls == "harness_rejected" && p.family == 3) { rep.count("c18.speculative_program_rejected_by_front_end"); return; }
    if (v.cls == "harness_rejected") { rep.count("harness.rejected_program"); fprintf(stderr, "rejected (run %llu): %s\n", (unsigned long long)run, v.detail.c_str()); return; }
    rep.count("c18.executions", st.executions);
    rep.count("c18.words_drawn", st.words);
    rep.count("c18.executions_ending_in_runtime_error", st.errors);
    rep.count(p.family == 0 ? "c18.family_class_program" : p.family == 1 ? "c18.family_quantum_history" : p.family == 2 ? "c18.family_isolation_program" : "c18.family_speculative_accepted");
    if (p.reanalyse) rep.count("c18.reanalysed_between_executions");
    if (p.collectLogLastOnly) rep.count("c18.qasm_log_only_on_last_execution");
    if (p.asMultiShot) rep.count("c18.configured_like_the_cli_shot_loop");
    if (p.echoAll) rep.count("c18.configured_like_the_cli_shot_loop_with_echo_all");
    if (p.family == 2 && !(p.variantMask & 128)) {
        if (p.variantMask & 1024) rep.count("c18.gate_through_handle_of_destroyed_owner_then_reuse");
        if (p.variantMask & 2048) rep.count("c18.out_of_range_literal_on_executed_path");
        if (p.variantMask & 4096) rep.count("c18.class_chain_declared_most_derived_first");
        if (p.variantMask & 8192) rep.count("c18.static_final_initialised_by_a_measurement");
        if (p.variantMask & 16384) rep.count("c18.class_named_like_a_type_parameter");
        if (p.variantMask & 32768) rep.count("c18.tracked_owner_parked_in_a_static_field");
    }
    sim::Hash h;
    h.add(sim::fnv1a(isoSource(p)));
    h.add((uint64_t)p.K * 4 + (p.reanalyse ? 2 : 0) + (p.collectLogLastOnly ? 1 : 0));
    h.add(p.wordSeed);
    rep.sig = h.h;
    rep.nontrivial = true;
    if (run < 48) {
        std::string srcText = isoSource(p);
        long srcLines = (long)std::count(srcText.begin(), srcText.end(), '\n');
        Json small = Json::object();
        small.set("family", p.family).set("K", p.K).set("reanalyse", p.reanalyse).set("variant_mask", p.variantMask).set("source_lines", (long long)srcLines);
        rep.sample = small.dump();
    }
    if (v.cls.empty()) return;
    std::string cls = v.cls;
    IsoPlan cur = p;
    int budget = 100;
    auto failsWith = [&](const IsoPlan& c) { IsoStats s2; return isoCheck(c, s2).cls == cls; };
    if (cur.family == 0) {
        std::function<bool(const std::vector<classprog::Stmt>&)> f = [&](const std::vector<classprog::Stmt>& m) { IsoPlan c = cur; c.cp.main = m; if (failsWith(c)) { cur = c; return true; } return false; };
        sim::ddmin<classprog::Stmt>(cur.cp.main, f, budget);
    } else if (cur.family == 2) {
        for (int b = 0; b < 16; ++b) { IsoPlan c = cur; c.variantMask &= ~(1 << b); if (c.variantMask != cur.variantMask && failsWith(c)) cur = c; }
    }
    while (cur.K > 2) { IsoPlan c = cur; c.K = cur.K - 1; if (failsWith(c)) cur = c; else break; }
    if (cur.reanalyse) { IsoPlan c = cur; c.reanalyse = false; if (failsWith(c)) cur = c; }
    IsoStats s1, s2;
    Verdict a1 = isoCheck(cur, s1), a2 = isoCheck(cur, s2);
    sim::Violation vio;
    vio.cls = cls;
    vio.signature = "c18:" + cls;
    vio.detail = a1.detail.empty() ? v.detail : a1.detail;
    vio.reproducible = a1.cls == cls && a2.cls == cls && a1.detail == a2.detail;
    vio.plan = isoJson(cur);
    rep.violations.push_back(std::move(vio));
}

int doReplay(const sim::Options& opt) {
    std::string txt;
    if (!sim::readFile(opt.replay, txt)) { fprintf(stderr, "cannot read %s\n", opt.replay.c_str()); return 2; }
    Json file;
    if (!Json::parse(txt, file)) { fprintf(stderr, "bad json\n"); return 2; }
    const Json& pj = file.has("plan") ? file.at("plan") : file;
    Verdict v;
    if (pj.at("what").asStr() == "shot_plan") {
        ShotPlan p = planFrom(pj);
        std::string src = renderShot(p);
        if (pj.has("source_text") && pj.at("source_text").asStr() != src) { fprintf(stderr, "renderer drift; refusing\n"); return 2; }
        uint64_t m, run = pj.at("rng_run").asU64();
        v = libraryCheck(p, src, run, m);
        if (v.cls.empty()) v = cliCheck(p, src, run);
    } else {
        IsoPlan p = isoFrom(pj);
        if (pj.has("source_text") && pj.at("source_text").asStr() != isoSource(p)) { fprintf(stderr, "renderer drift; refusing\n"); return 2; }
        IsoStats st;
        v = isoCheck(p, st);
    }
    if (v.cls.empty()) { printf("REPLAY ok\n"); return 0; }
    printf("REPLAY violation class=%s\n  %s\n", v.cls.c_str(), v.detail.c_str());
    return 1;
}

}  // namespace

int main(int argc, char** argv) {
    sim::Options opt = sim::parseOptions(argc, argv);
    if (opt.property.empty()) opt.property = "C17";
    setenv("BLOCH_OFFLINE", "1", 1);
    g_scratch = std::string(getenv("TMPDIR") ? getenv("TMPDIR") : "/tmp") + "/blochsim.clirun." + std::to_string(getpid());
    if (opt.mode.rfind("iso-", 0) == 0) {
        // one side of an isolation plan, in a process of its own (started by isoCheck)
        sim::mkdirs(g_scratch);
        if (chdir(g_scratch.c_str())) {}
        int rc = isoChildMain(opt);
        if (chdir("/")) {}
        std::string cmd = "rm -rf '" + g_scratch + "'";
        if (system(cmd.c_str())) {}
        return rc;
    }
    g_isoOpt = opt;
    g_isoOpt.mode.clear();
    if (!opt.replay.empty()) {
        sim::mkdirs(g_scratch);
        if (chdir(g_scratch.c_str())) {}
        int rc = doReplay(opt);
        if (chdir("/")) {}
        std::string cmd = "rm -rf '" + g_scratch + "'";
        if (system(cmd.c_str())) {}
        return rc;
    }
    bool thorough = opt.tier == "thorough";
    uint64_t nRuns = opt.property == "C17" ? (thorough ? 600000 : 20000) : (thorough ? 150000 : 6000);
    if (opt.property == "C18" && opt.workers > 8) opt.workers = 8;  // fork-heavy: 8 workers is the knee
    double cap = thorough ? 480 : 45;
    if (opt.runs > 0) nRuns = (uint64_t)opt.runs;
    if (opt.wallCap > 0) cap = opt.wallCap;
    printf("clirun property=%s tier=%s VERIF_SEED=%llu runs=%llu workers=%d\n", opt.property.c_str(), opt.tier.c_str(), (unsigned long long)opt.seed, (unsigned long long)nRuns, opt.workers);
    fflush(stdout);
    sim::RunFn fn = [&](uint64_t run, sim::RunReport& rep) { runOne(opt, run, rep); };
    auto workerInit = [&]() {
        g_scratch += ".w" + std::to_string(getpid());
        sim::mkdirs(g_scratch);
        if (chdir(g_scratch.c_str())) {}
    };
    if (opt.mode == "single") {
        // debugging aid: execute one run index in this process
        workerInit();
        sim::RunReport rep;
        runOne(opt, (uint64_t)opt.runs, rep);
        for (auto& v : rep.violations) printf("violation %s: %s\n", v.cls.c_str(), v.detail.c_str());
        printf("single run %ld done\n", opt.runs);
        return 0;
    }
    if (opt.selftestDeterminism) {
        sim::Options o1 = opt;
        o1.workers = 1 + (int)(opt.seed % 3);
        uint64_t n = opt.runs > 0 ? (uint64_t)opt.runs : 1500;
        sim::BatchResult a = sim::runBatch(o1, n, fn, 0, 3, workerInit), b = sim::runBatch(opt, n, fn, 0, 3, workerInit);
        bool same = a.hashOfAll == b.hashOfAll && a.runs == b.runs && a.counters == b.counters;
        printf("determinism: runs=%llu hashA=%016llx hashB=%016llx %s\n", (unsigned long long)a.runs, (unsigned long long)a.hashOfAll, (unsigned long long)b.hashOfAll, same ? "SAME" : "DIFFERENT");
        std::string cmd = "rm -rf " + g_scratch + ".w*";
        if (system(cmd.c_str())) {}
        return same ? 0 : 2;
    }
    sim::BatchResult R = sim::runBatch(opt, nRuns, fn, cap, 3, workerInit);
    {
        std::string cmd = "rm -rf " + g_scratch + ".w*";
        if (system(cmd.c_str())) {}
    }
    sim::CheckSummary S = sim::gateViolations(opt, R);
    for (auto& c : R.crashes) {
        fprintf(stderr, "HARNESS: worker died in run %llu: %s\n%s\n", (unsigned long long)c.run, sim::classifyCrash(c.status, c.stderrTail).c_str(), c.stderrTail.substr(0, 1500).c_str());
        if (S.exitCode == 0) S.exitCode = 2;
    }
    std::vector<std::string> mandatory;
    if (opt.property == "C17") mandatory = {"c17.cli_runs", "c17.measure_statements_scripted", "c17.multi_exit_scopes", "c17.object_owned_tracked_fields", "echo.absent", "echo.auto", "echo.all", "echo.none", "cfg.annotation_and_flag_differ", "cfg.annotation_only", "cfg.flag_only", "cfg.no_shot_count"};
    else mandatory = {"c18.executions", "c18.words_drawn", "c18.family_class_program", "c18.family_quantum_history", "c18.family_isolation_program", "c18.reanalysed_between_executions", "c18.cli_shot_loop_runs"};
    if (R.runs >= 500)
        for (auto& m : mandatory)
            if (R.counters[m] == 0) { fprintf(stderr, "HARNESS: mandatory reach counter %s is zero\n", m.c_str()); if (S.exitCode == 0) S.exitCode = 2; }
    if (R.counters["harness.rejected_program"] > 0) { fprintf(stderr, "HARNESS: %llu generated programs rejected by the front end\n", (unsigned long long)R.counters["harness.rejected_program"]); if (S.exitCode == 0) S.exitCode = 2; }
    std::string rule = opt.property == "C17"
                           ? "one run = one generated shot program (tracked locals, loop- and helper-scoped tracked variables, tracked arrays, objects with tracked fields that die one or more times per shot, measured / unmeasured / reset histories) with a configuration (@shots present or not, --shots present or not and equal or different, --echo absent/auto/all/none), executed once through a bare evaluator and once through cli::run with the outcome of every executed measure statement scripted; the printed aggregate is compared with a model of tracked accounting; non-trivial = at least one measure statement was scripted; distinct = distinct (source, configuration, outcome seed)"
                           : "one run = one program (class program, quantum history with tracked declarations and qubit-owning objects, or an isolation program with statics, float formatting, generic specialisations, const-sized arrays, qubit-owning objects in garbage cycles) executed K in {2,3,5} times on one analysed tree (optionally re-analysed in between, optionally logging QASM only on the last execution) and, for each k, once on a fresh parse-analyse of the same source with the same scripted draws and the same simulated GC schedule; echo buffer, diagnostics, tracked table, QASM, qubit count, final state and statement count must be identical; distinct = distinct (source, K, options, draw seed)";
    Json ev = sim::evidenceSkeleton(opt, R, rule, S.violations);
    Json& cov = const_cast<Json&>(ev.at("coverage"));
    cov.set("faults_fired", Json::object()
                                .set("measure_outcomes_scripted", Json((unsigned long long)R.counters["c17.measure_statements_scripted"]))
                                .set("shots_executed_through_cli", Json((unsigned long long)R.counters["c17.shots_executed"]))
                                .set("repeated_executions_of_one_tree", Json((unsigned long long)R.counters["c18.executions"]))
                                .set("reanalysis_between_executions", Json((unsigned long long)R.counters["c18.reanalysed_between_executions"])));
    cov.set("components", Json::object()
                              .set("real", Json::arrayOf(std::vector<std::string>{"cli::run", "ModuleLoader", "semantic analyser", "RuntimeEvaluator", "QasmSimulator", "GC timer thread (under the serialising scheduler)"}))
                              .set("stub", Json::arrayOf(std::vector<std::string>{"measurement outcomes (scripted through hook H1)", "steady clock", "updater (no-op)"})));
    cov.set("known_findings_hit", Json((unsigned long long)S.knownHits));
    cov.set("violation_details", S.details);
    ev.set("assumptions", Json::arrayOf(std::vector<std::string>{"echo policy is judged only where the property's sentence is unambiguous (--echo=none on a single run is not judged)", "C18 compares the same binary with itself: only history differs between the two sides"}));
    sim::writeEvidence(opt, ev);
    sim::printSummary(S);
    printf("clirun done: runs=%llu distinct=%zu wall=%.1fs violations=%llu exit=%d\n", (unsigned long long)R.runs, R.distinct.size(), R.wall, (unsigned long long)S.violations, S.exitCode);
    return S.exitCode;
}
