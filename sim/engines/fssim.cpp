// Engine fssim: C19 (imports resolve deterministically, load once, detect cycles, check packages).
//
// Real code: ModuleLoader (std::filesystem, ifstream, canonicalisation, sorting), lexer, parser.
// Simulated: the directory tree (layout, symlinks, aliasing roots), the working directory, the search
// path list and its spellings, the order in which files are created, and - as the one injected I/O
// fault - a failing open of one chosen module (file vanished / unreadable between resolution and parse).
#include <dirent.h>
#include <dlfcn.h>
#include <ftw.h>
#include <sys/stat.h>
#include <unistd.h>

#include <iostream>
#include <sstream>

#include "bloch/compiler/import/module_loader.hpp"
#include "bloch/support/error/bloch_error.hpp"
#include "sim/core/core.hpp"

using namespace bloch;
using sim::Json;

// ---- open-failure fault: interposes the fopen64 that libstdc++'s filebuf uses -------------------------
namespace fault {
std::string target;      // path suffix to fail ("" = off)
int failAt = -1;         // fail the k-th open of the target (0-based)
int seen = 0;
int fired = 0;
}  // namespace fault

extern "C" FILE* fopen64(const char* path, const char* mode) {
    using Fn = FILE* (*)(const char*, const char*);
    static Fn real = (Fn)dlsym(RTLD_NEXT, "fopen64");
    if (!fault::target.empty() && path) {
        std::string p(path);
        if (p.size() >= fault::target.size() && p.compare(p.size() - fault::target.size(), fault::target.size(), fault::target) == 0) {
            if (fault::seen++ == fault::failAt) {
                ++fault::fired;
                errno = EACCES;
                return nullptr;
            }
        }
    }
    return real(path, mode);
}

namespace {

// ================================================================================================
// plan
// ================================================================================================
struct Import {
    std::vector<std::string> pkg;   // package parts
    std::string symbol;             // empty for wildcard
    bool wildcard = false;
};
struct Module {
    int dir = 0;                      // physical directory id
    std::vector<std::string> path;    // directories below the physical directory (the "real" package path)
    std::string name;                 // file stem
    int pkgMode = 0;                  // 0 declares the package matching its path, 1 declares a wrong package, 2 declares none
    std::vector<Import> imports;
    bool hasMain = false;
    int uid = 0;
};
struct Root {
    int dir = 0;          // physical directory
    int spelling = 0;     // 0 absolute, 1 through a symlink, 2 with a dot-dot segment, 3 relative to cwd
};
struct Extra {
    int dir = 0;
    std::vector<std::string> path;
    std::string name;     // entry name
    int kind = 0;         // 0 non-.bloch file, 1 sub-directory, 2 directory named X.bloch
};
struct Alias {
    int dir = 0;
    std::string alias, real;   // top-level package directory alias -> real (symlink inside the physical dir)
};
struct TreePlan {
    int nDirs = 1;
    std::vector<Module> modules;
    std::vector<Extra> extras;
    std::vector<Alias> aliases;
    int entry = 0;                    // module index
    int entrySpelling = 0;
    std::vector<Root> searchPaths;
    Root cwd;
    int secondEntry = -1;             // module index for the reuse check
    int createOrderSeed = 0;
    std::string faultTarget;          // module file to fail on open ("" = none), as "dN/rel/path.bloch"
    int faultAt = 0;
};

std::string join(const std::vector<std::string>& v, const char* sep) {
    std::string s;
    for (size_t i = 0; i < v.size(); ++i) { if (i) s += sep; s += v[i]; }
    return s;
}

Json importJson(const Import& i) { return Json::object().set("pkg", Json::arrayOf(i.pkg)).set("symbol", i.symbol).set("wildcard", i.wildcard); }
Json rootJson(const Root& r) { return Json::object().set("dir", r.dir).set("spelling", r.spelling); }
Json planJson(const TreePlan& p) {
    Json mods = Json::array();
    for (auto& m : p.modules) {
        Json imps = Json::array();
        for (auto& i : m.imports) imps.push(importJson(i));
        mods.push(Json::object().set("dir", m.dir).set("path", Json::arrayOf(m.path)).set("name", m.name).set("pkg_mode", m.pkgMode).set("imports", imps).set("main", m.hasMain).set("uid", m.uid));
    }
    Json ex = Json::array();
    for (auto& e : p.extras) ex.push(Json::object().set("dir", e.dir).set("path", Json::arrayOf(e.path)).set("name", e.name).set("kind", e.kind));
    Json al = Json::array();
    for (auto& a : p.aliases) al.push(Json::object().set("dir", a.dir).set("alias", a.alias).set("real", a.real));
    Json sp = Json::array();
    for (auto& r : p.searchPaths) sp.push(rootJson(r));
    return Json::object().set("engine", "fssim").set("dirs", p.nDirs).set("modules", mods).set("extras", ex).set("aliases", al).set("entry", p.entry).set("entry_spelling", p.entrySpelling).set("search_paths", sp)
        .set("cwd", rootJson(p.cwd)).set("second_entry", p.secondEntry).set("create_order_seed", p.createOrderSeed).set("fault_target", p.faultTarget).set("fault_at", p.faultAt);
}
std::vector<std::string> strs(const Json& j) { std::vector<std::string> v; for (auto& e : j.a) v.push_back(e.asStr()); return v; }
Root rootFrom(const Json& j) { return Root{(int)j.at("dir").asInt(), (int)j.at("spelling").asInt()}; }
TreePlan planFrom(const Json& j) {
    TreePlan p;
    p.nDirs = (int)j.at("dirs").asInt(1);
    for (auto& m : j.at("modules").a) {
        Module x;
        x.dir = (int)m.at("dir").asInt();
        x.path = strs(m.at("path"));
        x.name = m.at("name").asStr();
        x.pkgMode = (int)m.at("pkg_mode").asInt();
        for (auto& i : m.at("imports").a) x.imports.push_back(Import{strs(i.at("pkg")), i.at("symbol").asStr(), i.at("wildcard").asBool()});
        x.hasMain = m.at("main").asBool();
        x.uid = (int)m.at("uid").asInt();
        p.modules.push_back(x);
    }
    for (auto& e : j.at("extras").a) p.extras.push_back(Extra{(int)e.at("dir").asInt(), strs(e.at("path")), e.at("name").asStr(), (int)e.at("kind").asInt()});
    for (auto& a : j.at("aliases").a) p.aliases.push_back(Alias{(int)a.at("dir").asInt(), a.at("alias").asStr(), a.at("real").asStr()});
    p.entry = (int)j.at("entry").asInt();
    p.entrySpelling = (int)j.at("entry_spelling").asInt();
    for (auto& r : j.at("search_paths").a) p.searchPaths.push_back(rootFrom(r));
    p.cwd = rootFrom(j.at("cwd"));
    p.secondEntry = (int)j.at("second_entry").asInt(-1);
    p.createOrderSeed = (int)j.at("create_order_seed").asInt();
    p.faultTarget = j.at("fault_target").asStr();
    p.faultAt = (int)j.at("fault_at").asInt();
    return p;
}

// ================================================================================================
// reference resolver (over the plan, never touches the file system)
// ================================================================================================
struct Expect {
    bool ok = false;
    std::string kind;       // failure kind: cycle | not_found | package_mismatch | no_main | multiple_main
    std::string subject;    // import spelled as in the diagnostic
    std::vector<int> order; // success: module indices in merged order
};

struct Resolver {
    const TreePlan& p;
    std::vector<int> bases;   // physical dirs of search paths
    int cwdDir;
    explicit Resolver(const TreePlan& plan) : p(plan), cwdDir(plan.cwd.dir) { for (auto& r : plan.searchPaths) bases.push_back(r.dir); }

    // canonical form of a directory path inside a physical dir (top-level alias symlinks resolved)
    std::vector<std::string> canonPath(int dir, std::vector<std::string> path) const {
        if (!path.empty())
            for (auto& a : p.aliases)
                if (a.dir == dir && a.alias == path[0]) { path[0] = a.real; break; }
        return path;
    }
    int findModule(int dir, const std::vector<std::string>& path, const std::string& name) const {
        std::vector<std::string> c = canonPath(dir, path);
        for (size_t i = 0; i < p.modules.size(); ++i)
            if (p.modules[i].dir == dir && p.modules[i].path == c && p.modules[i].name == name) return (int)i;
        return -1;
    }
    bool dirExists(int dir, const std::vector<std::string>& path) const {
        std::vector<std::string> c = canonPath(dir, path);
        if (c.empty()) return true;
        auto prefix = [&](const std::vector<std::string>& full) { return full.size() >= c.size() && std::equal(c.begin(), c.end(), full.begin()); };
        for (auto& m : p.modules)
            if (m.dir == dir && prefix(m.path)) return true;
        for (auto& e : p.extras) {
            if (e.dir != dir) continue;
            if (prefix(e.path)) return true;
            if (e.kind == 1 || e.kind == 2) { std::vector<std::string> full = e.path; full.push_back(e.name); if (prefix(full)) return true; }
        }
        return false;
    }
    std::vector<int> baseOrder(const std::vector<std::string>& parts, int fromDir) const {
        std::vector<int> order;
        bool prefer = !parts.empty() && parts.front() == "bloch";
        if (prefer) { for (int b : bases) order.push_back(b); order.push_back(fromDir); order.push_back(cwdDir); }
        else { order.push_back(fromDir); for (int b : bases) order.push_back(b); order.push_back(cwdDir); }
        return order;
    }
    // "fromDir" of an importing module is its own directory: physical dir + its path
    int resolveSingle(const std::vector<std::string>& parts, int fromPhys, const std::vector<std::string>& fromPath) const {
        std::vector<std::string> pkg(parts.begin(), parts.end() - 1);
        const std::string& name = parts.back();
        bool prefer = !parts.empty() && parts.front() == "bloch";
        auto tryBase = [&](int phys, const std::vector<std::string>& basePath) {
            std::vector<std::string> full = basePath;
            full.insert(full.end(), pkg.begin(), pkg.end());
            return findModule(phys, full, name);
        };
        std::vector<std::pair<int, std::vector<std::string>>> order;
        if (prefer) { for (int b : bases) order.push_back({b, {}}); order.push_back({fromPhys, fromPath}); order.push_back({cwdDir, {}}); }
        else { order.push_back({fromPhys, fromPath}); for (int b : bases) order.push_back({b, {}}); order.push_back({cwdDir, {}}); }
        for (auto& o : order) {
            // a path below the importing file's directory only aliases at top level when the base path is empty
            int m = tryBase(o.first, o.second);
            if (m >= 0) return m;
        }
        return -1;
    }
    std::vector<int> resolveWildcard(const std::vector<std::string>& pkg, int fromPhys, const std::vector<std::string>& fromPath) const {
        bool prefer = !pkg.empty() && pkg.front() == "bloch";
        std::vector<std::pair<int, std::vector<std::string>>> order;
        if (prefer) { for (int b : bases) order.push_back({b, {}}); order.push_back({fromPhys, fromPath}); order.push_back({cwdDir, {}}); }
        else { order.push_back({fromPhys, fromPath}); for (int b : bases) order.push_back({b, {}}); order.push_back({cwdDir, {}}); }
        for (auto& o : order) {
            std::vector<std::string> full = o.second;
            full.insert(full.end(), pkg.begin(), pkg.end());
            std::vector<std::string> c = canonPath(o.first, full);
            std::vector<std::pair<std::string, int>> found;
            for (size_t i = 0; i < p.modules.size(); ++i)
                if (p.modules[i].dir == o.first && p.modules[i].path == c) found.push_back({p.modules[i].name, (int)i});
            if (!found.empty()) {
                // the loader sorts full canonical path strings; inside one directory that is "<name>.bloch" order
                std::sort(found.begin(), found.end(), [](auto& a, auto& b) { return a.first + ".bloch" < b.first + ".bloch"; });
                std::vector<int> r;
                for (auto& f : found) r.push_back(f.second);
                return r;
            }
        }
        return {};
    }
    static std::vector<std::string> declaredPackage(const Module& m) {
        if (m.pkgMode == 2) return {};
        if (m.pkgMode == 1) { std::vector<std::string> w = m.path; w.push_back("wrongpkg"); return w; }
        return m.path;
    }
    static std::string importName(const Import& i) {
        std::string s = join(i.pkg, ".");
        if (i.wildcard) return s + ".*";
        return s.empty() ? i.symbol : s + "." + i.symbol;
    }

    Expect run(int entry) const {
        Expect E;
        std::vector<int> stack, order;
        std::vector<bool> cached(p.modules.size(), false);
        bool failed = false;
        std::function<void(int)> load = [&](int m) {
            if (failed) return;
            if (std::find(stack.begin(), stack.end(), m) != stack.end()) { failed = true; E.kind = "cycle"; return; }
            if (cached[(size_t)m]) return;
            stack.push_back(m);
            const Module& mod = p.modules[(size_t)m];
            for (auto& imp : mod.imports) {
                if (failed) return;
                if (imp.wildcard) {
                    std::vector<int> targets = resolveWildcard(imp.pkg, mod.dir, mod.path);
                    if (targets.empty()) { failed = true; E.kind = "not_found"; E.subject = importName(imp); return; }
                    for (int t : targets) {
                        if (t == m) continue;
                        load(t);
                        if (failed) return;
                        if (declaredPackage(p.modules[(size_t)t]) != imp.pkg) { failed = true; E.kind = "package_mismatch"; E.subject = importName(imp); return; }
                    }
                } else {
                    std::vector<std::string> parts = imp.pkg;
                    parts.push_back(imp.symbol);
                    int t = resolveSingle(parts, mod.dir, mod.path);
                    if (t < 0) { failed = true; E.kind = "not_found"; E.subject = importName(imp); return; }
                    load(t);
                    if (failed) return;
                    if (declaredPackage(p.modules[(size_t)t]) != imp.pkg) { failed = true; E.kind = "package_mismatch"; E.subject = importName(imp); return; }
                }
            }
            cached[(size_t)m] = true;
            order.push_back(m);
            stack.pop_back();
        };
        // implicit root object, when some root provides bloch/lang/Object.bloch
        {
            const Module& em = p.modules[(size_t)entry];
            int obj = resolveSingle({"bloch", "lang", "Object"}, em.dir, em.path);
            if (obj >= 0) load(obj);
        }
        if (!failed) load(entry);
        if (failed) return E;
        int mains = 0;
        for (int m : order)
            if (p.modules[(size_t)m].hasMain) ++mains;
        if (mains == 0) { E.kind = "no_main"; return E; }
        if (mains > 1) { E.kind = "multiple_main"; return E; }
        E.ok = true;
        E.order = order;
        return E;
    }
};

// ================================================================================================
// materialisation and the real loader
// ================================================================================================
std::string g_scratch;

std::string physPath(int dir) { return g_scratch + "/t/d" + std::to_string(dir); }
std::string spelled(const Root& r, const Root& cwd) {
    switch (r.spelling) {
        case 1: return g_scratch + "/t/l" + std::to_string(r.dir);                       // symlink l<N> -> d<N>
        case 2: return g_scratch + "/t/d0/../d" + std::to_string(r.dir);                 // dot-dot segment
        case 3: return r.dir == cwd.dir ? std::string(".") : "../d" + std::to_string(r.dir);  // relative to the working directory
    }
    return physPath(r.dir);
}

std::string moduleText(const Module& m) {
    std::string s;
    std::vector<std::string> pkg = Resolver::declaredPackage(m);
    if (!pkg.empty()) s += "package " + join(pkg, ".") + ";\n";
    for (auto& i : m.imports) s += "import " + Resolver::importName(i) + ";\n";
    std::string id = std::to_string(m.uid);
    if (m.name == "Object" && !m.path.empty() && m.path[0] == "bloch") s += "class Object { public constructor() -> Object = default; }\n";
    else s += "class K" + id + " { public constructor() -> K" + id + " = default; }\n";
    s += "function f" + id + "() -> void { }\n";
    if (m.hasMain) s += "function main() -> void { echo(\"main\"); }\n";
    return s;
}

int rmCb(const char* path, const struct stat*, int, struct FTW*) { return remove(path); }
void rmTree(const std::string& path) { nftw(path.c_str(), rmCb, 32, FTW_DEPTH | FTW_PHYS); }

void materialise(const TreePlan& p) {
    rmTree(g_scratch + "/t");
    sim::mkdirs(g_scratch + "/t");
    for (int d = 0; d < p.nDirs; ++d) {
        sim::mkdirs(physPath(d));
        std::string link = g_scratch + "/t/l" + std::to_string(d);
        if (symlink(("d" + std::to_string(d)).c_str(), link.c_str())) {}
    }
    // creation order is part of the plan: readdir order must not matter
    std::vector<size_t> idx(p.modules.size());
    for (size_t i = 0; i < idx.size(); ++i) idx[i] = i;
    sim::Rng g((uint64_t)p.createOrderSeed, "create", 0);
    for (size_t i = idx.size(); i > 1; --i) std::swap(idx[i - 1], idx[g.below(i)]);
    for (size_t k : idx) {
        const Module& m = p.modules[k];
        std::string dir = physPath(m.dir) + (m.path.empty() ? "" : "/" + join(m.path, "/"));
        sim::mkdirs(dir);
        sim::writeFile(dir + "/" + m.name + ".bloch", moduleText(m));
    }
    for (auto& e : p.extras) {
        std::string dir = physPath(e.dir) + (e.path.empty() ? "" : "/" + join(e.path, "/"));
        sim::mkdirs(dir);
        if (e.kind == 0) sim::writeFile(dir + "/" + e.name, "not a module\n");
        else if (e.kind == 3) { if (symlink(e.name.c_str(), (dir + "/" + e.name).c_str())) {} }   // points at itself: every lookup through it fails with ELOOP
        else sim::mkdirs(dir + "/" + e.name);
    }
    for (auto& a : p.aliases) {
        std::string link = physPath(a.dir) + "/" + a.alias;
        if (symlink(a.real.c_str(), link.c_str())) {}
    }
}

struct Actual {
    bool ok = false;
    int category = -1;       // ErrorCategory as int
    std::string message;
    std::vector<std::string> classes, functions;
    bool otherException = false;
};

std::string moduleFile(const TreePlan& p, int m, int spelling) {
    const Module& mod = p.modules[(size_t)m];
    Root r{mod.dir, spelling};
    return spelled(r, p.cwd) + (mod.path.empty() ? "" : "/" + join(mod.path, "/")) + "/" + mod.name + ".bloch";
}

Actual loadWith(compiler::ModuleLoader& loader, const std::string& entryFile) {
    Actual A;
    try {
        auto prog = loader.load(entryFile);
        A.ok = true;
        for (auto& c : prog->classes) A.classes.push_back(c->name);
        for (auto& f : prog->functions) A.functions.push_back(f->name);
    } catch (const support::BlochError& e) {
        A.category = (int)e.category;
        A.message = e.what();
    } catch (const std::exception& e) {
        A.otherException = true;
        A.message = e.what();
    }
    return A;
}

std::string kindOf(const std::string& msg) {
    if (msg.find("import cycle detected") != std::string::npos) return "cycle";
    if (msg.find("resolved to package") != std::string::npos) return "package_mismatch";
    if (msg.find("not found") != std::string::npos && msg.find("import '") != std::string::npos) return "not_found";
    if (msg.find("No 'main'") != std::string::npos) return "no_main";
    if (msg.find("Multiple 'main'") != std::string::npos) return "multiple_main";
    if (msg.find("failed to open") != std::string::npos) return "open_failed";
    return "other";
}

struct Verdict {
    std::string cls, detail;
};

std::string describe(const Actual& a) {
    if (a.ok) return "success: classes [" + join(a.classes, ",") + "] functions [" + join(a.functions, ",") + "]";
    return std::string(a.otherException ? "std::exception: " : "error: ") + a.message.substr(0, 200);
}

Verdict compare(const TreePlan& p, const Expect& E, const Actual& A, const char* which) {
    std::string w = which;
    if (A.otherException) return {"raw_exception_from_loader", w + ": " + A.message};
    if (E.ok) {
        if (!A.ok) return {"valid_tree_rejected", w + ": expected success, got " + describe(A)};
        std::vector<std::string> cls, fn;
        for (int m : E.order) {
            const Module& mod = p.modules[(size_t)m];
            bool isObj = mod.name == "Object" && !mod.path.empty() && mod.path[0] == "bloch";
            cls.push_back(isObj ? "Object" : "K" + std::to_string(mod.uid));
            fn.push_back("f" + std::to_string(mod.uid));
            if (mod.hasMain) fn.push_back("main");
        }
        if (A.classes != cls) {
            std::multiset<std::string> a(A.classes.begin(), A.classes.end()), b(cls.begin(), cls.end());
            if (a != b) {
                std::set<std::string> sa(A.classes.begin(), A.classes.end());
                if (sa.size() != A.classes.size()) return {"module_loaded_more_than_once", w + ": merged classes [" + join(A.classes, ",") + "]"};
                return {"wrong_set_of_modules_loaded", w + ": merged classes [" + join(A.classes, ",") + "], expected [" + join(cls, ",") + "]"};
            }
            return {"merge_order_wrong", w + ": merged classes [" + join(A.classes, ",") + "], expected dependencies-first order [" + join(cls, ",") + "]"};
        }
        if (A.functions != fn) return {"merged_functions_wrong", w + ": [" + join(A.functions, ",") + "] vs [" + join(fn, ",") + "]"};
        return {};
    }
    if (A.ok) return {"invalid_tree_accepted", w + ": expected a " + E.kind + " diagnostic" + (E.subject.empty() ? "" : " for import '" + E.subject + "'") + ", got " + describe(A)};
    if (A.category != (int)support::ErrorCategory::Semantic) return {"diagnostic_category_wrong", w + ": expected a Semantic diagnostic (" + E.kind + "), got category " + std::to_string(A.category) + ": " + A.message.substr(0, 160)};
    std::string k = kindOf(A.message);
    if (k != E.kind) return {"wrong_diagnostic", w + ": expected " + E.kind + (E.subject.empty() ? "" : " for '" + E.subject + "'") + ", got " + k + ": " + A.message.substr(0, 200)};
    if (!E.subject.empty() && A.message.find("'" + E.subject + "'") == std::string::npos) return {"diagnostic_names_wrong_import", w + ": expected import '" + E.subject + "' in: " + A.message.substr(0, 200)};
    return {};
}

struct Stats {
    uint64_t loads = 0, faultsFired = 0;
    bool cycle = false, diamond = false, shadow = false, wildcard = false, aliasUsed = false, twoRootsDiamond = false;
    std::string outcome;
};

Verdict evaluate(const TreePlan& p, Stats& st) {
    materialise(p);
    std::string cwdPath = physPath(p.cwd.dir);
    if (chdir(cwdPath.c_str())) return {"harness_chdir_failed", cwdPath};
    std::vector<std::string> sp;
    for (auto& r : p.searchPaths) sp.push_back(spelled(r, p.cwd));
    Resolver R(p);
    Expect E = R.run(p.entry);
    st.outcome = E.ok ? "ok" : E.kind;
    std::string entryFile = moduleFile(p, p.entry, p.entrySpelling);
    fault::target.clear();
    Verdict v;
    {
        compiler::ModuleLoader loader(sp);
        if (!p.faultTarget.empty()) {
            // narrow fault: one open of one module fails. Relaxed oracle: a categorised diagnostic or success
            // (if that module is never opened / opened before the failing attempt), never a raw exception;
            // and the loader must stay usable.
            fault::target = p.faultTarget;
            fault::failAt = p.faultAt;
            fault::seen = 0;
            fault::fired = 0;
            Actual A = loadWith(loader, entryFile);
            ++st.loads;
            st.faultsFired += (uint64_t)fault::fired;
            fault::target.clear();
            if (A.otherException) v = {"raw_exception_from_loader", "with a failing open of " + p.faultTarget + ": " + A.message};
            else if (fault::fired && A.ok) v = {"failed_open_ignored", "open of " + p.faultTarget + " failed but load() reported success"};
            else if (fault::fired && A.message.find(p.faultTarget.substr(p.faultTarget.find('/') + 1)) == std::string::npos)
                v = {"diagnostic_after_failed_open_does_not_name_the_file", A.message.substr(0, 200)};
            else if (!fault::fired) v = compare(p, E, A, "first load (fault did not fire)");
        } else {
            Actual A = loadWith(loader, entryFile);
            ++st.loads;
            v = compare(p, E, A, "first load");
        }
        // the same loader, another entry: must equal a fresh loader's result
        if (v.cls.empty() && p.secondEntry >= 0) {
            Expect E2 = R.run(p.secondEntry);
            std::string e2 = moduleFile(p, p.secondEntry, 0);
            Actual A2 = loadWith(loader, e2);
            ++st.loads;
            v = compare(p, E2, A2, "second load on the same loader");
            if (v.cls.empty()) {
                // and loading the first entry again gives the first answer again
                Actual A3 = loadWith(loader, entryFile);
                ++st.loads;
                v = compare(p, E, A3, "third load (first entry again) on the same loader");
            }
        }
    }
    if (chdir("/")) {}
    return v;
}

// ================================================================================================
// generator
// ================================================================================================
TreePlan generate(sim::Rng& g) {
    TreePlan p;
    p.nDirs = g.range(1, 3);
    static const char* pk[] = {"a", "b", "util", "bloch", "blochkit", "bloch_ext"};   // the last two only look like the stdlib namespace
    static const char* sub[] = {"x", "y", "lang"};
    static const char* names[] = {"Alpha", "Beta", "Core", "Delta", "Main", "Zed", "Object", "Util", "Bit_Utils", "_Impl", "x9", "A"};
    int nMods = g.range(1, 9);
    int uid = 1;
    auto randPath = [&]() {
        std::vector<std::string> path;
        int depth = (int)g.below(4);
        if (depth >= 1) path.push_back(pk[g.below(6)]);
        if (depth >= 2) path.push_back(sub[g.below(3)]);
        if (depth >= 3) path.push_back("deep");
        return path;
    };
    for (int i = 0; i < nMods; ++i) {
        Module m;
        m.dir = (int)g.below((uint64_t)p.nDirs);
        m.path = randPath();
        m.name = names[g.below(12)];
        if (g.chance(0.08)) { m.path = {"bloch", "lang"}; m.name = "Object"; }
        if (i > 0 && g.chance(0.35)) {  // shadow candidate: same package path and name as an earlier module, elsewhere
            const Module& o = p.modules[g.below(p.modules.size())];
            m.path = o.path;
            m.name = o.name;
            m.dir = (int)g.below((uint64_t)p.nDirs);
        }
        bool dup = false;
        for (auto& o : p.modules)
            if (o.dir == m.dir && o.path == m.path && o.name == m.name) dup = true;
        if (dup) continue;
        m.uid = uid++;
        p.modules.push_back(m);
    }
    if (p.modules.empty()) { Module m; m.name = "Main"; m.uid = uid++; p.modules.push_back(m); }
    // imports: mostly forward edges (acyclic), wired by package path + name
    for (size_t i = 0; i < p.modules.size(); ++i) {
        int nImp = (int)g.below(4);
        for (int k = 0; k < nImp; ++k) {
            // forward edges only, so that cycles come (almost only) from the deliberate defect below
            if (i + 1 >= p.modules.size()) break;
            const Module& t = p.modules[i + 1 + g.below(p.modules.size() - i - 1)];
            Import im;
            im.pkg = t.path;
            if (!t.path.empty() && g.chance(0.3)) im.wildcard = true;
            else im.symbol = t.name;
            bool same = false;
            for (auto& e : p.modules[i].imports)
                if (e.pkg == im.pkg && e.symbol == im.symbol && e.wildcard == im.wildcard) same = true;
            if (!same) p.modules[i].imports.push_back(im);
        }
    }
    // the implicit root object may have imports of its own (they must still precede it in the merged program)
    for (size_t i = 0; i < p.modules.size(); ++i) {
        Module& m = p.modules[i];
        if (m.name == "Object" && m.path.size() == 2 && m.path[0] == "bloch" && m.path[1] == "lang" && m.imports.empty() && i + 1 < p.modules.size() && g.chance(0.6)) {
            const Module& t = p.modules[i + 1 + g.below(p.modules.size() - i - 1)];
            Import im;
            im.pkg = t.path;
            im.symbol = t.name;
            m.imports.push_back(im);
        }
    }
    p.entry = (int)g.below(std::max<size_t>(1, p.modules.size() / 2));
    // the entry sometimes wildcard-imports its own package (the loader must skip the entry itself, whatever
    // spelling the entry was named by)
    if (!p.modules[(size_t)p.entry].path.empty() && g.chance(0.2)) {
        Import im;
        im.pkg = p.modules[(size_t)p.entry].path;
        im.wildcard = true;
        p.modules[(size_t)p.entry].imports.push_back(im);
    }
    // exactly one main by default, on the entry
    p.modules[(size_t)p.entry].hasMain = true;
    // at most one deliberate defect
    int defect = (int)g.below(10);
    if (defect == 0) { p.modules[g.below(p.modules.size())].pkgMode = 1; }
    else if (defect == 1) { p.modules[g.below(p.modules.size())].pkgMode = 2; }
    else if (defect == 2) { Import im; im.pkg = {"nowhere"}; im.symbol = "Missing"; auto& m = p.modules[g.below(p.modules.size())]; m.imports.insert(m.imports.begin() + (long)g.below(m.imports.size() + 1), im); }
    else if (defect == 3) { p.modules[(size_t)p.entry].hasMain = false; }
    else if (defect == 4 || defect == 6) { p.modules[g.below(p.modules.size())].hasMain = true; }
    else if (defect == 5 && p.modules.size() >= 2) {
        // close a cycle: some module imports the entry
        auto& m = p.modules[g.below(p.modules.size())];
        const Module& e = p.modules[(size_t)p.entry];
        Import im;
        im.pkg = e.path;
        im.symbol = e.name;
        if (!e.path.empty() && g.chance(0.4)) { im.wildcard = true; im.symbol.clear(); }
        m.imports.push_back(im);
    }
    // extras in package directories
    int nExtra = (int)g.below(4);
    for (int k = 0; k < nExtra; ++k) {
        const Module& m = p.modules[g.below(p.modules.size())];
        Extra e;
        e.dir = g.chance(0.7) ? m.dir : (int)g.below((uint64_t)p.nDirs);
        e.path = m.path;
        e.kind = (int)g.below(3);
        e.name = e.kind == 0 ? "notes.txt" : e.kind == 1 ? "subdir" : "Ghost.bloch";
        bool clash = false;
        for (auto& o : p.modules)
            if (o.dir == e.dir && o.path == e.path && o.name + ".bloch" == e.name) clash = true;
        for (auto& o : p.extras)
            if (o.dir == e.dir && o.path == e.path && o.name == e.name) clash = true;
        if (!clash) p.extras.push_back(e);
    }
    // a root in which the first component of some module's package is a symbolic link to itself: probing that root raises a
    // real file-system error (too many levels of symbolic links), not "no such file" - the search must go on to the next root
    if (p.nDirs > 1 && g.chance(0.15)) {
        const Module& m = p.modules[g.below(p.modules.size())];
        if (!m.path.empty()) {
            int d = (int)g.below((uint64_t)p.nDirs);
            bool used = false;
            for (auto& o : p.modules) if (o.dir == d && !o.path.empty() && o.path[0] == m.path[0]) used = true;
            for (auto& o : p.extras) if (o.dir == d && ((!o.path.empty() && o.path[0] == m.path[0]) || (o.path.empty() && o.name == m.path[0]))) used = true;
            if (!used) p.extras.push_back(Extra{d, {}, m.path[0], 3});
        }
    }
    // a top-level package alias (symlinked directory): a module reachable by two spellings
    if (g.chance(0.2)) {
        for (auto& m : p.modules) {
            if (m.path.empty() || m.path[0] == "bloch") continue;
            Alias a{m.dir, "al" + m.path[0], m.path[0]};
            bool clash = false;
            for (auto& o : p.modules)
                if (o.dir == a.dir && !o.path.empty() && o.path[0] == a.alias) clash = true;
            if (clash) break;
            p.aliases.push_back(a);
            // somebody imports through the alias
            auto& imp = p.modules[g.below(p.modules.size())];
            Import im;
            im.pkg = m.path;
            im.pkg[0] = a.alias;
            im.symbol = m.name;
            imp.imports.push_back(im);
            break;
        }
    }
    int nSearch = (int)g.below(3);
    for (int k = 0; k < nSearch; ++k) p.searchPaths.push_back(Root{(int)g.below((uint64_t)p.nDirs), (int)g.below(4)});
    p.cwd = Root{(int)g.below((uint64_t)p.nDirs), 0};
    p.entrySpelling = (int)g.below(4);
    if (g.chance(0.5)) p.secondEntry = (int)g.below(p.modules.size());
    p.createOrderSeed = (int)g.below(1000000);
    return p;
}

// validity of a shrunk plan: indices in range, unique module locations
bool wellFormed(const TreePlan& p) {
    if (p.modules.empty() || p.entry < 0 || p.entry >= (int)p.modules.size()) return false;
    if (p.secondEntry >= (int)p.modules.size()) return false;
    for (size_t i = 0; i < p.modules.size(); ++i)
        for (size_t k = i + 1; k < p.modules.size(); ++k)
            if (p.modules[i].dir == p.modules[k].dir && p.modules[i].path == p.modules[k].path && p.modules[i].name == p.modules[k].name) return false;
    return true;
}

void classify(const TreePlan& p, Stats& st) {
    Resolver R(p);
    // reach probes computed on the plan
    for (auto& m : p.modules)
        for (auto& i : m.imports) if (i.wildcard) st.wildcard = true;
    std::map<std::pair<std::vector<std::string>, std::string>, std::set<int>> where;
    for (auto& m : p.modules) where[{m.path, m.name}].insert(m.dir);
    for (auto& kv : where) if (kv.second.size() > 1) st.shadow = true;
    st.aliasUsed = !p.aliases.empty();
    // diamond: a module imported by two different modules reachable from the entry
    std::map<int, int> importers;
    for (size_t i = 0; i < p.modules.size(); ++i)
        for (auto& im : p.modules[i].imports) {
            if (im.wildcard) continue;
            std::vector<std::string> parts = im.pkg;
            parts.push_back(im.symbol);
            int t = R.resolveSingle(parts, p.modules[i].dir, p.modules[i].path);
            if (t >= 0 && t != (int)i) { importers[t]++; if (p.modules[(size_t)t].dir != p.modules[i].dir) st.twoRootsDiamond = st.twoRootsDiamond || importers[t] > 1; }
        }
    for (auto& kv : importers) if (kv.second > 1) st.diamond = true;
}

void runOne(const sim::Options& opt, uint64_t run, sim::RunReport& rep) {
    sim::Rng g(opt.seed, "gen", run), fg(opt.seed, "fault", run);
    TreePlan p = generate(g);
    bool withFault = run % 6 == 5;
    if (withFault) {
        const Module& m = p.modules[fg.below(p.modules.size())];
        p.faultTarget = "d" + std::to_string(m.dir) + (m.path.empty() ? "" : "/" + join(m.path, "/")) + "/" + m.name + ".bloch";
        p.faultAt = (int)fg.below(2);
        p.secondEntry = p.secondEntry < 0 ? (int)fg.below(p.modules.size()) : p.secondEntry;
    }
    Stats st;
    Verdict v = evaluate(p, st);
    classify(p, st);
    rep.count("runs");
    rep.count("fs.loads", st.loads);
    rep.count("fs.modules", p.modules.size());
    rep.count("fs.open_failures_fired", st.faultsFired);
    rep.count("expected." + st.outcome);
    if (st.wildcard) rep.count("fs.trees_with_wildcard");
    if (st.shadow) rep.count("fs.shadowed_candidates");
    if (st.diamond) rep.count("fs.diamonds");
    if (st.twoRootsDiamond) rep.count("fs.diamond_via_two_roots");
    if (st.aliasUsed) rep.count("fs.symlinked_package_alias");
    if (!p.searchPaths.empty()) rep.count("fs.with_search_paths");
    if (p.secondEntry >= 0) rep.count("fs.loader_reused");
    for (auto& r : p.searchPaths) if (r.spelling) rep.count("fs.respelled_roots");
    for (auto& e : p.extras) if (e.kind == 3) rep.count("fs.root_with_self_referential_symlink");
    sim::Hash h;
    h.addStr(planJson(p).dump());
    rep.sig = h.h;
    rep.nontrivial = p.modules.size() > 1;
    if (run < 48) rep.sample = planJson(p).dump();
    if (v.cls.empty()) return;
    std::string cls = v.cls;
    TreePlan cur = p;
    int budget = 150;
    auto failsWith = [&](const TreePlan& c) { if (!wellFormed(c)) return false; Stats s2; return evaluate(c, s2).cls == cls; };
    // drop modules (fix indices)
    for (size_t i = cur.modules.size(); i-- > 0 && budget > 0;) {
        if ((int)i == cur.entry) continue;
        TreePlan c = cur;
        c.modules.erase(c.modules.begin() + (long)i);
        if (c.entry > (int)i) --c.entry;
        if (c.secondEntry == (int)i) c.secondEntry = -1;
        else if (c.secondEntry > (int)i) --c.secondEntry;
        --budget;
        if (failsWith(c)) cur = c;
    }
    // drop imports
    for (size_t m = 0; m < cur.modules.size(); ++m)
        for (size_t i = cur.modules[m].imports.size(); i-- > 0 && budget > 0;) {
            TreePlan c = cur;
            c.modules[m].imports.erase(c.modules[m].imports.begin() + (long)i);
            --budget;
            if (failsWith(c)) cur = c;
        }
    { TreePlan c = cur; c.extras.clear(); if (budget-- > 0 && failsWith(c)) cur = c; }
    { TreePlan c = cur; c.aliases.clear(); if (budget-- > 0 && failsWith(c)) cur = c; }
    { TreePlan c = cur; c.searchPaths.clear(); if (budget-- > 0 && failsWith(c)) cur = c; }
    { TreePlan c = cur; c.secondEntry = -1; if (budget-- > 0 && failsWith(c)) cur = c; }
    { TreePlan c = cur; c.entrySpelling = 0; for (auto& r : c.searchPaths) r.spelling = 0; if (budget-- > 0 && failsWith(c)) cur = c; }
    Stats s1, s2;
    Verdict a1 = evaluate(cur, s1), a2 = evaluate(cur, s2);
    sim::Violation vio;
    vio.cls = cls;
    vio.signature = "fs:" + cls;
    vio.detail = a1.detail.empty() ? v.detail : a1.detail;
    vio.reproducible = a1.cls == cls && a2.cls == cls && a1.detail == a2.detail;
    vio.plan = planJson(cur);
    Json files = Json::object();
    for (auto& m : cur.modules) files.set("d" + std::to_string(m.dir) + "/" + (m.path.empty() ? "" : join(m.path, "/") + "/") + m.name + ".bloch", moduleText(m));
    vio.plan.set("files", files);
    rep.violations.push_back(std::move(vio));
}

int doReplay(const sim::Options& opt) {
    std::string txt;
    if (!sim::readFile(opt.replay, txt)) { fprintf(stderr, "cannot read %s\n", opt.replay.c_str()); return 2; }
    Json file;
    if (!Json::parse(txt, file)) { fprintf(stderr, "bad json\n"); return 2; }
    const Json& pj = file.has("plan") ? file.at("plan") : file;
    TreePlan p = planFrom(pj);
    if (!wellFormed(p)) { fprintf(stderr, "plan not well-formed\n"); return 2; }
    Stats st;
    Verdict v = evaluate(p, st);
    if (v.cls.empty()) { printf("REPLAY ok\n"); return 0; }
    printf("REPLAY violation class=%s\n  %s\n", v.cls.c_str(), v.detail.c_str());
    return 1;
}

}  // namespace

int main(int argc, char** argv) {
    sim::Options opt = sim::parseOptions(argc, argv);
    opt.property = "C19";
    g_scratch = std::string(getenv("TMPDIR") ? getenv("TMPDIR") : "/tmp") + "/blochsim.fssim." + std::to_string(getpid());
    if (!opt.replay.empty()) {
        sim::mkdirs(g_scratch);
        int rc = doReplay(opt);
        rmTree(g_scratch);
        return rc;
    }
    bool thorough = opt.tier == "thorough";
    uint64_t nRuns = thorough ? 600000 : 16000;
    double cap = thorough ? 420 : 40;
    if (opt.runs > 0) nRuns = (uint64_t)opt.runs;
    if (opt.wallCap > 0) cap = opt.wallCap;
    printf("fssim property=C19 tier=%s VERIF_SEED=%llu runs=%llu workers=%d\n", opt.tier.c_str(), (unsigned long long)opt.seed, (unsigned long long)nRuns, opt.workers);
    fflush(stdout);
    sim::RunFn fn = [&](uint64_t run, sim::RunReport& rep) { runOne(opt, run, rep); };
    auto workerInit = [&]() { g_scratch += ".w" + std::to_string(getpid()); sim::mkdirs(g_scratch); };
    if (opt.selftestDeterminism) {
        sim::Options o1 = opt;
        o1.workers = 1 + (int)(opt.seed % 3);
        uint64_t n = opt.runs > 0 ? (uint64_t)opt.runs : 2000;
        sim::BatchResult a = sim::runBatch(o1, n, fn, 0, 3, workerInit), b = sim::runBatch(opt, n, fn, 0, 3, workerInit);
        bool same = a.hashOfAll == b.hashOfAll && a.runs == b.runs && a.counters == b.counters;
        printf("determinism: runs=%llu hashA=%016llx hashB=%016llx %s\n", (unsigned long long)a.runs, (unsigned long long)a.hashOfAll, (unsigned long long)b.hashOfAll, same ? "SAME" : "DIFFERENT");
        rmTree(g_scratch + ".w*");
        std::string cmd = "rm -rf " + g_scratch + ".w*";
        if (system(cmd.c_str())) {}
        return same ? 0 : 2;
    }
    sim::BatchResult R = sim::runBatch(opt, nRuns, fn, cap, 3, workerInit);
    {
        std::string cmd = "rm -rf " + g_scratch + ".w*";
        if (system(cmd.c_str())) {}
    }
    sim::CheckSummary S = sim::gateViolations(opt, R);
    for (auto& c : R.crashes) {
        fprintf(stderr, "HARNESS: worker died in run %llu: %s\n%s\n", (unsigned long long)c.run, sim::classifyCrash(c.status, c.stderrTail).c_str(), c.stderrTail.substr(0, 1500).c_str());
        if (S.exitCode == 0) S.exitCode = 2;
    }
    std::vector<std::string> mandatory = {"fs.loads", "fs.open_failures_fired", "fs.trees_with_wildcard", "fs.shadowed_candidates", "fs.diamonds", "fs.diamond_via_two_roots", "fs.symlinked_package_alias", "fs.loader_reused", "expected.ok", "expected.cycle", "expected.not_found", "expected.package_mismatch", "expected.no_main", "expected.multiple_main"};
    if (R.runs >= 1000)
        for (auto& m : mandatory)
            if (R.counters[m] == 0) { fprintf(stderr, "HARNESS: mandatory reach counter %s is zero\n", m.c_str()); if (S.exitCode == 0) S.exitCode = 2; }
    Json ev = sim::evidenceSkeleton(opt, R,
                                    "one run = one generated source tree (1-3 physical roots, packages to depth 3, 1-9 modules with correct/wrong/missing package lines, single/wildcard/default-package/bloch.* imports, shadow candidates in several roots, diamonds, at most one deliberate defect: cycle, missing import, wrong or missing package line, zero or two mains; non-module files, sub-directories and a directory named X.bloch in package directories; a symlinked package alias) materialised on disk in a plan-chosen creation order, with a choice of entry file spelling, search-path list and spellings (absolute, via symlink, dot-dot, relative) and working directory; the real ModuleLoader's result is compared with a reference resolver over the in-memory plan; every sixth run one open of one module fails (EACCES); half of the runs reuse the loader for a second and third load; non-trivial = more than one module; distinct = distinct plan",
                                    S.violations);
    Json& cov = const_cast<Json&>(ev.at("coverage"));
    cov.set("faults_fired", Json::object().set("module_open_failed", Json((unsigned long long)R.counters["fs.open_failures_fired"])).set("loader_reused_for_another_entry", Json((unsigned long long)R.counters["fs.loader_reused"])).set("roots_spelled_through_symlink_dotdot_or_relative", Json((unsigned long long)R.counters["fs.respelled_roots"])).set("probe_of_a_root_fails_with_ELOOP", Json((unsigned long long)R.counters["fs.root_with_self_referential_symlink"])));
    cov.set("components", Json::object().set("real", Json::arrayOf(std::vector<std::string>{"ModuleLoader", "std::filesystem / ifstream on a real scratch tree", "lexer", "parser"})).set("stub", Json::arrayOf(std::vector<std::string>{"fopen64 (interposed only to fail one chosen open)"})));
    cov.set("known_findings_hit", Json((unsigned long long)S.knownHits));
    cov.set("violation_details", S.details);
    ev.set("assumptions", Json::arrayOf(std::vector<std::string>{"trees carry at most one deliberate defect so that the expected diagnostic does not depend on the order in which the loader discovers problems", "under an injected open failure the oracle is relaxed to: a categorised diagnostic naming the file, no raw exception, loader reusable"}));
    sim::writeEvidence(opt, ev);
    sim::printSummary(S);
    printf("fssim done: runs=%llu distinct=%zu wall=%.1fs violations=%llu exit=%d\n", (unsigned long long)R.runs, R.distinct.size(), R.wall, (unsigned long long)S.violations, S.exitCode);
    return S.exitCode;
}
