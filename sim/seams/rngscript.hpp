// H1 provider: the 32-bit words behind every measurement/reset draw come from here.
// Words are staged by the engine right before the operation that will draw them; if the code under
// test draws more than was staged, the surplus comes from a seeded fallback stream and is counted.
#pragma once

#include <cstdint>
#include <deque>

#include "bloch/support/verif_hooks.hpp"
#include "sim/core/core.hpp"

namespace rngs {

struct Provider {
    std::deque<uint32_t> staged;
    sim::Rng fallback;
    uint64_t wordsDrawn = 0;       // total words handed out
    uint64_t unstagedDrawn = 0;    // words that had to come from the fallback stream
    std::vector<uint32_t> history; // every word handed out, in order

    static uint32_t thunk(void* ctx) { return static_cast<Provider*>(ctx)->next(); }
    uint32_t next() {
        uint32_t w;
        if (!staged.empty()) { w = staged.front(); staged.pop_front(); }
        else { w = (uint32_t)fallback.next(); ++unstagedDrawn; }
        ++wordsDrawn;
        history.push_back(w);
        return w;
    }
    void stage64(uint64_t bits) { staged.push_back((uint32_t)(bits & 0xffffffffu)); staged.push_back((uint32_t)(bits >> 32)); }
    void clearStaged() { staged.clear(); }
    void install() { bloch::verif::g_wordFn = &Provider::thunk; bloch::verif::g_wordCtx = this; }
    static void uninstall() { bloch::verif::g_wordFn = nullptr; bloch::verif::g_wordCtx = nullptr; }
    void reset(uint64_t seed, uint64_t run) {
        staged.clear();
        fallback = sim::Rng(seed, "rng-fallback", run);
        wordsDrawn = unstagedDrawn = 0;
        history.clear();
    }
};

}  // namespace rngs
