// Deterministic scheduler for the evaluator's GC timer thread.
//
// The interpreter thread and the evaluator's real timer thread are the two tasks; exactly one runs
// at a time. The timer thread is parked inside the wrapped pthread_cond_clockwait (which has
// released the mutex, as the real call would). Control is handed over only inside wrappers
// (yield hook H2, notify_all, join, thread start); the hand-over uses spin-waits on relaxed
// atomics only, which create no happens-before edge, so ThreadSanitizer still sees every plain
// shared access between the two threads as a race.
//
// Link with:
//   -Wl,--wrap=pthread_cond_clockwait -Wl,--wrap=_ZNSt6chrono3_V212steady_clock3nowEv
//   -Wl,--wrap=_ZNSt6thread4joinEv -Wl,--wrap=_ZNSt18condition_variable10notify_allEv
//   -Wl,--wrap=_ZNSt6thread15_M_start_threadESt10unique_ptrINS_6_StateESt14default_deleteIS1_EEPFvvE
//   -Wl,--wrap=_ZNSt18condition_variable4waitERSt11unique_lockISt5mutexE
//   -Wl,--wrap=_ZNSt6thread6detachEv
// --wrap is link-wide: this file and the engines never use std::chrono clocks, condition variables
// or std::thread for their own purposes.
//
// With -DGCS_ATOMIC_SEAM (ThreadSanitizer flavour of gcsim only) the timer thread can additionally be
// pre-empted in the middle of a slice: under -fsanitize=thread every atomic operation in the code under
// test is a call into the TSan runtime (__tsan_atomicN_*), and those symbols are wrapped at link time as
// well. After an atomic operation performed by the timer thread the schedule may park it there
// ("mid-slice"); the interpreter then runs on, statement by statement, until the schedule resumes the
// timer. A mid-slice-parked timer still holds whatever mutexes and references it held, so the
// interpreter's pthread_mutex_lock is wrapped too: a contended lock resumes the timer until the lock is
// free. Interpreter code (a yield) executing on any thread but the interpreter's is reported at once.
#pragma once

#include <pthread.h>
#include <sched.h>
#include <time.h>
#include <unistd.h>

#include <atomic>
#include <cerrno>
#include <cstdint>
#include <cstdlib>
#include <thread>
#include <vector>

#include "bloch/runtime/runtime_evaluator.hpp"
#include "bloch/support/verif_hooks.hpp"

namespace gcs {

using bloch::runtime::RuntimeEvaluator;
constexpr auto RLX = std::memory_order_relaxed;
constexpr int64_t kInfinite = INT64_MAX;

// ---- simulator state (atomics only) ----------------------------------------------------------
inline std::atomic<int> g_active{0};      // simulation on: wrappers intercept
inline std::atomic<int> g_parked{0};      // 1: timer thread is parked in a wait; 2: parked mid-slice (GCS_ATOMIC_SEAM)
inline std::atomic<int> g_wake{0};        // 0 none, 1 timeout, 2 notified
inline std::atomic<int> g_exited{0};      // timer thread has terminated (reaped)
inline std::atomic<int> g_started{0};     // a timer thread was started for the current evaluator
inline std::atomic<int> g_detached{0};
inline std::atomic<int64_t> g_simNowNs{1000000000LL};
inline std::atomic<int64_t> g_deadlineNs{0};
inline std::atomic<uint64_t> g_waits{0};  // number of times the timer thread entered a wait
inline std::atomic<int> g_armed{0};       // the current timer thread has reached its first wait (mid-slice pre-emption possible from then on)
inline std::atomic<void*> g_cond{nullptr};
inline pthread_t g_handle{};
inline bool g_reaped = false;
inline RuntimeEvaluator* g_threadOwner = nullptr;  // evaluator whose m_gcThread is the timer thread

// per-run statistics / flags (interpreter thread only)
struct Stats {
    uint64_t yields = 0, ticksDelivered = 0, notifyDelivered = 0, notifyLost = 0, joinTimeouts = 0;
    uint64_t threadsStarted = 0, threadsExited = 0, untimedWaits = 0;
    bool livenessViolation = false;       // timer not stopped within 3 simulated timeouts / blocked forever
    bool threadAliveAfterRun = false;
    bool detached = false;
    bool timerRanCollectorSuspect = false;
    int64_t injectedAtYield = -1;
    uint64_t midSliceParks = 0, midSliceResumes = 0, contendedLocks = 0, notifyWhileMidSlice = 0;
};
inline Stats g_stats;

inline size_t offsetOfGcCv() {
    return (size_t)((char*)&(((RuntimeEvaluator*)0x100000)->m_gcCv) - (char*)0x100000);
}
// the evaluator that owns the condition variable the timer thread waits on
inline RuntimeEvaluator* ownerFromCond() {
    void* c = g_cond.load(RLX);
    return c ? (RuntimeEvaluator*)((char*)c - offsetOfGcCv()) : nullptr;
}

inline void spinPause() { sched_yield(); }

inline thread_local int t_inSeam = 0;   // scheduler code is running on this thread: the atomic/mutex wrappers pass straight through
struct SeamGuard { SeamGuard() { ++t_inSeam; } ~SeamGuard() { --t_inSeam; } };

// Wait until the timer thread is parked again or has terminated.
inline void waitTimerQuiescent() {
    uint64_t spins = 0;
    struct timespec t0 {};
    for (;;) {
        // watchdog (real time, used for nothing else): a timer thread that neither parks nor ends is blocked for good -
        // in the code under test only on a lock nobody will release. The run cannot go on; it ends with a marked abort.
        if ((++spins & 0xfff) == 0) {
            struct timespec t {};
            clock_gettime(CLOCK_MONOTONIC, &t);
            if (t0.tv_sec == 0) t0 = t;
            else if (t.tv_sec - t0.tv_sec > 12) {
                static const char msg[] = "GCSIM-FATAL: timer_thread_blocked_forever\n";
                ssize_t ignored = write(2, msg, sizeof msg - 1);
                (void)ignored;
                abort();
            }
        }
        if (g_parked.load(RLX)) return;
        if (g_exited.load(RLX)) return;
        if (!g_reaped && !g_detached.load(RLX)) {
            if (pthread_tryjoin_np(g_handle, nullptr) == 0) {
                g_reaped = true;
                g_exited.store(1, RLX);
                g_stats.threadsExited++;
                return;
            }
        }
        if (g_detached.load(RLX) && spins > 200000) return;  // cannot observe a detached thread's end
        spinPause();
    }
}

// Deliver a wake-up to the parked timer thread and run it until it is quiescent again.
inline void releaseTimer(int how) {
    g_wake.store(how, RLX);
    // the thread clears g_parked itself; wait until it has left the wait
    while (g_parked.load(RLX) && g_wake.load(RLX) != 0) spinPause();
    waitTimerQuiescent();
}

inline int parkHere(pthread_mutex_t* m, int64_t deadlineNs) {
    SeamGuard seam;
    g_waits.fetch_add(1, RLX);
    g_armed.store(1, RLX);
    g_deadlineNs.store(deadlineNs, RLX);
    pthread_mutex_unlock(m);
    g_wake.store(0, RLX);
    g_parked.store(1, RLX);
    int w;
    while ((w = g_wake.load(RLX)) == 0) spinPause();
    g_parked.store(0, RLX);
    g_wake.store(0, RLX);
    pthread_mutex_lock(m);
    return w;
}

}  // namespace gcs

extern "C" {
int __real_pthread_cond_clockwait(pthread_cond_t*, pthread_mutex_t*, clockid_t, const struct timespec*);
int __wrap_pthread_cond_clockwait(pthread_cond_t* c, pthread_mutex_t* m, clockid_t clk, const struct timespec* ts) {
    gcs::SeamGuard seam;
    if (!gcs::g_active.load(gcs::RLX)) return __real_pthread_cond_clockwait(c, m, clk, ts);
    gcs::g_cond.store((void*)c, gcs::RLX);
    int w = gcs::parkHere(m, (int64_t)ts->tv_sec * 1000000000LL + ts->tv_nsec);
    return w == 1 ? ETIMEDOUT : 0;
}

long __real__ZNSt6chrono3_V212steady_clock3nowEv();
long __wrap__ZNSt6chrono3_V212steady_clock3nowEv() {
    gcs::SeamGuard seam;
    if (!gcs::g_active.load(gcs::RLX)) return __real__ZNSt6chrono3_V212steady_clock3nowEv();
    return gcs::g_simNowNs.load(gcs::RLX);
}

// std::condition_variable::wait(unique_lock<mutex>&) - only reached if the code under test waits
// without a timeout; parks with an infinite deadline.
void __real__ZNSt18condition_variable4waitERSt11unique_lockISt5mutexE(void*, void*);
void __wrap__ZNSt18condition_variable4waitERSt11unique_lockISt5mutexE(void* cv, void* lockp) {
    gcs::SeamGuard seam;
    if (!gcs::g_active.load(gcs::RLX)) { __real__ZNSt18condition_variable4waitERSt11unique_lockISt5mutexE(cv, lockp); return; }
    auto* lk = static_cast<std::unique_lock<std::mutex>*>(lockp);
    gcs::g_cond.store(cv, gcs::RLX);
    gcs::parkHere(lk->mutex()->native_handle(), gcs::kInfinite);
}

void __real__ZNSt6thread15_M_start_threadESt10unique_ptrINS_6_StateESt14default_deleteIS1_EEPFvvE(std::thread*, void*, void (*)());
void __wrap__ZNSt6thread15_M_start_threadESt10unique_ptrINS_6_StateESt14default_deleteIS1_EEPFvvE(std::thread* self, void* st, void (*dep)()) {
    if (!gcs::g_active.load(gcs::RLX)) {
        __real__ZNSt6thread15_M_start_threadESt10unique_ptrINS_6_StateESt14default_deleteIS1_EEPFvvE(self, st, dep);
        return;
    }
    gcs::g_reaped = false;
    gcs::g_exited.store(0, gcs::RLX);
    gcs::g_parked.store(0, gcs::RLX);
    gcs::g_detached.store(0, gcs::RLX);
    gcs::g_cond.store(nullptr, gcs::RLX);
    gcs::g_armed.store(0, gcs::RLX);
    __real__ZNSt6thread15_M_start_threadESt10unique_ptrINS_6_StateESt14default_deleteIS1_EEPFvvE(self, st, dep);
    gcs::g_handle = self->native_handle();
    gcs::g_started.store(1, gcs::RLX);
    gcs::g_stats.threadsStarted++;
    gcs::waitTimerQuiescent();  // the new thread parks in its first wait (or exits) before we go on
    gcs::g_threadOwner = gcs::ownerFromCond();
}

void __real__ZNSt6thread6detachEv(std::thread*);
void __wrap__ZNSt6thread6detachEv(std::thread* t) {
    if (gcs::g_active.load(gcs::RLX) && gcs::g_started.load(gcs::RLX) && pthread_equal(t->native_handle(), gcs::g_handle)) {
        gcs::g_detached.store(1, gcs::RLX);
        gcs::g_stats.detached = true;
    }
    __real__ZNSt6thread6detachEv(t);
}
}

namespace gcs {

// ---- plan-driven behaviour ---------------------------------------------------------------------
struct Schedule {
    bool baseline = false;              // clear m_gcRequested at every yield, never advance the clock
    std::vector<uint32_t> ticks;        // explicit: yields at which simulated time passes the deadline (sorted)
    // generative mode (used on first execution; the delivered ticks are recorded into Trace::tickYields)
    bool generative = false;
    int64_t meanIncNs = 0;              // mean simulated-clock increment per yield
    uint64_t genSeed = 0;
    int64_t jumpAtYield = -1;           // forward clock jump of one hour at this yield
    int stallYields = 0;                // withhold a due release for this many yields (slow node)
    bool notifyLost = false;            // the notify_all that accompanies stop is lost
    uint64_t preemptSeed = 0;           // GCS_ATOMIC_SEAM: decisions taken at the timer thread's atomic operations
    int preemptOneIn = 0;               // park the timer mid-slice after an atomic operation with probability 1/N (0 = never)
    int resumeOneIn = 2;                // at each yield resume a mid-slice-parked timer with probability 1/M
    int64_t injectErrorAtYield = -1;    // N10: throw BlochError(Runtime) at this yield
    int injectKind = 0;                 // 0 BlochError(Runtime); 1 a std::exception that is not a BlochError (e.g. what bad_alloc would be)
};
inline Schedule g_sched;
inline pthread_t g_interp{};                 // the interpreter thread of the current run
inline uint64_t g_preemptState = 0;          // stream consumed by the timer thread only
inline std::atomic<uint64_t> g_midParks{0};
inline size_t g_tickCursor = 0;
inline uint64_t g_genState = 0;
inline int g_stallLeft = 0;
inline std::vector<uint32_t> g_tickYields;   // recorded: yields at which a timeout was delivered
inline bool g_injected = false;
using YieldObserver = void (*)(RuntimeEvaluator* ev, void* stmt, uint64_t yieldIndex, bool gcPending);
inline YieldObserver g_observer = nullptr;

inline uint64_t genNext() {
    uint64_t z = (g_genState += 0x9E3779B97F4A7C15ull);
    z = (z ^ (z >> 30)) * 0xBF58476D1CE4E5B9ull;
    z = (z ^ (z >> 27)) * 0x94D049BB133111EBull;
    return z ^ (z >> 31);
}

inline void beginRun(const Schedule& s) {
    g_sched = s;
    g_tickCursor = 0;
    g_genState = s.genSeed;
    g_stallLeft = 0;
    g_tickYields.clear();
    g_injected = false;
    g_stats = Stats{};
    g_simNowNs.store(1000000000LL, RLX);
    g_started.store(0, RLX);
    g_exited.store(0, RLX);
    g_parked.store(0, RLX);
    g_wake.store(0, RLX);
    g_detached.store(0, RLX);
    g_threadOwner = nullptr;
    g_reaped = false;
    g_interp = pthread_self();
    g_preemptState = s.preemptSeed;
    g_midParks.store(0, RLX);
    g_active.store(1, RLX);
}

// Called after the evaluator has been destroyed (or execute() returned and evaluator destroyed).
inline void endRun() {
    if (g_started.load(RLX) && !g_exited.load(RLX)) {
        // the evaluator is gone but its timer thread was never stopped
        if (!g_detached.load(RLX)) {
            // cannot happen without std::terminate (joinable thread destroyed) - keep for completeness
        }
        g_stats.threadAliveAfterRun = true;
    }
    g_stats.midSliceParks = g_midParks.load(RLX);
    g_active.store(0, RLX);
}

inline bool timerThreadLeaked() { return g_started.load(RLX) && !g_exited.load(RLX); }

inline void onYield(void* evp, void* stmt) {
    auto* ev = static_cast<RuntimeEvaluator*>(evp);
    if (g_active.load(RLX) && !pthread_equal(pthread_self(), g_interp)) {
        // a statement of the program is being executed by a thread that is not the interpreter's: the timer thread
        // has come to run interpreter code (it can only have become the last owner of an object with a destructor)
        static const char msg[] = "GCSIM-FATAL: interpreter_code_on_timer_thread\n";
        ssize_t ignored = write(2, msg, sizeof msg - 1);
        (void)ignored;
        abort();
    }
    uint64_t y = g_stats.yields++;
    bool timerLive = g_started.load(RLX) && !g_exited.load(RLX) && g_threadOwner == ev;
    if (g_sched.baseline) {
        ev->m_gcRequested.store(false);
    } else if (g_started.load(RLX) && !g_exited.load(RLX) && g_parked.load(RLX) == 2) {
        // timer parked mid-slice: simulated time passes, the timer goes on when the schedule says so
        if (g_sched.generative && g_sched.meanIncNs > 0) g_simNowNs.store(g_simNowNs.load(RLX) + (int64_t)(genNext() % (uint64_t)(2 * g_sched.meanIncNs + 1)), RLX);
        if (g_sched.resumeOneIn <= 1 || genNext() % (uint64_t)g_sched.resumeOneIn == 0) {
            g_stats.midSliceResumes++;
            releaseTimer(3);
        }
    } else if (timerLive && g_parked.load(RLX)) {
        bool due = false;
        if (g_sched.generative) {
            int64_t inc = 0;
            if (g_sched.meanIncNs > 0) {
                // increments uniform in [0, 2*mean]
                inc = (int64_t)(genNext() % (uint64_t)(2 * g_sched.meanIncNs + 1));
            }
            if ((int64_t)y == g_sched.jumpAtYield) inc += 3600LL * 1000000000LL;
            int64_t now = g_simNowNs.load(RLX) + inc;
            g_simNowNs.store(now, RLX);
            int64_t dl = g_deadlineNs.load(RLX);
            if (dl != kInfinite && now >= dl) {
                if (g_stallLeft > 0) { --g_stallLeft; }
                else { due = true; if (g_sched.stallYields > 0 && (genNext() % 4) == 0) { g_stallLeft = g_sched.stallYields; due = false; } }
            }
        } else {
            while (g_tickCursor < g_sched.ticks.size() && g_sched.ticks[g_tickCursor] < y) ++g_tickCursor;
            if (g_tickCursor < g_sched.ticks.size() && g_sched.ticks[g_tickCursor] == y) {
                ++g_tickCursor;
                int64_t dl = g_deadlineNs.load(RLX);
                if (dl != kInfinite) {
                    if (g_simNowNs.load(RLX) < dl) g_simNowNs.store(dl, RLX);
                    due = true;
                }
            }
        }
        if (due) {
            g_tickYields.push_back((uint32_t)y);
            g_stats.ticksDelivered++;
            releaseTimer(1);
        }
    }
    if (g_observer) g_observer(ev, stmt, y, ev->m_gcRequested.load());
    if (g_sched.injectErrorAtYield >= 0 && !g_injected && (int64_t)y >= g_sched.injectErrorAtYield) {
        bool inDtor = false;  // since fix D13 an error may strike inside a user destructor as well
        if (!inDtor) {
            g_injected = true;
            g_stats.injectedAtYield = (int64_t)y;
            if (g_sched.injectKind == 1) throw std::runtime_error("injected non-Bloch exception");
            throw bloch::support::BlochError(bloch::support::ErrorCategory::Runtime, 1, 1, "injected fault");
        }
    }
}

inline void install() { bloch::verif::g_yield = &onYield; }

}  // namespace gcs

extern "C" {
void __real__ZNSt18condition_variable10notify_allEv(void*);
void __wrap__ZNSt18condition_variable10notify_allEv(void* c) {
    using namespace gcs;
    if (!g_active.load(RLX) || !g_started.load(RLX) || g_exited.load(RLX) || c != g_cond.load(RLX)) {
        __real__ZNSt18condition_variable10notify_allEv(c);
        return;
    }
    if (g_sched.notifyLost) { g_stats.notifyLost++; return; }
    if (g_parked.load(RLX) == 2) { g_stats.notifyWhileMidSlice++; return; }   // nobody is waiting on the condition variable: a real notify_all is a no-op here
    if (g_parked.load(RLX)) {
        g_stats.notifyDelivered++;
        releaseTimer(2);
    }
}

void __real__ZNSt6thread4joinEv(std::thread*);
void __wrap__ZNSt6thread4joinEv(std::thread* t) {
    using namespace gcs;
    if (!g_active.load(RLX) || !g_started.load(RLX) || !pthread_equal(t->native_handle(), g_handle)) {
        __real__ZNSt6thread4joinEv(t);
        return;
    }
    int timeouts = 0;
    for (;;) {
        waitTimerQuiescent();
        if (g_exited.load(RLX)) break;
        if (g_parked.load(RLX) == 2) { g_stats.midSliceResumes++; releaseTimer(3); continue; }   // joining blocks the interpreter: the timer runs on
        // parked: the stop notification was lost (or never sent) - time has to pass
        int64_t dl = g_deadlineNs.load(RLX);
        if (dl == kInfinite || timeouts >= 3) {
            g_stats.livenessViolation = true;
            // force the thread out so that the run can end: what the code under test failed to do
            if (g_threadOwner) g_threadOwner->m_stopGc.store(true);
            releaseTimer(2);
            if (!g_exited.load(RLX) && timeouts > 8) break;  // give up; thread stays parked
            ++timeouts;
            continue;
        }
        if (g_simNowNs.load(RLX) < dl) g_simNowNs.store(dl, RLX);
        ++timeouts;
        g_stats.joinTimeouts++;
        releaseTimer(1);
    }
    if (g_reaped) {
        t->_M_id = std::thread::id();  // already joined by pthread_tryjoin_np
    } else {
        __real__ZNSt6thread4joinEv(t);
        g_exited.store(1, RLX);
    }
}
}


#ifdef GCS_ATOMIC_SEAM
// ---- pre-emption of the timer thread at its atomic operations (ThreadSanitizer flavour) -------------------------
namespace gcs {
// called on any thread after an atomic operation of the code under test
inline void afterAtomic() {
    if (t_inSeam) return;
    SeamGuard g;
    if (!g_active.load(RLX) || g_armed.load(RLX) == 0) return;   // armed once the timer thread has parked in its first wait
    if (pthread_equal(pthread_self(), g_interp)) return;
    if (g_sched.baseline || g_sched.preemptOneIn <= 0) return;
    // timer thread: one draw per atomic operation
    uint64_t z = (g_preemptState += 0x9E3779B97F4A7C15ull);
    z = (z ^ (z >> 30)) * 0xBF58476D1CE4E5B9ull;
    z = (z ^ (z >> 27)) * 0x94D049BB133111EBull;
    z ^= z >> 31;
    if (z % (uint64_t)g_sched.preemptOneIn != 0) return;
    if (g_midParks.load(RLX) >= 64) return;   // bounded per run
    g_midParks.fetch_add(1, RLX);
    g_wake.store(0, RLX);
    g_parked.store(2, RLX);
    while (g_wake.load(RLX) == 0) spinPause();
    g_parked.store(0, RLX);
    g_wake.store(0, RLX);
}
}  // namespace gcs

extern "C" {
#define GCS_WRAP_ATOMICS(N, T)                                                                                                   \
    T __real___tsan_atomic##N##_load(const volatile T*, int);                                                                    \
    T __wrap___tsan_atomic##N##_load(const volatile T* a, int mo) { T r = __real___tsan_atomic##N##_load(a, mo); gcs::afterAtomic(); return r; } \
    void __real___tsan_atomic##N##_store(volatile T*, T, int);                                                                   \
    void __wrap___tsan_atomic##N##_store(volatile T* a, T v, int mo) { __real___tsan_atomic##N##_store(a, v, mo); gcs::afterAtomic(); } \
    T __real___tsan_atomic##N##_exchange(volatile T*, T, int);                                                                   \
    T __wrap___tsan_atomic##N##_exchange(volatile T* a, T v, int mo) { T r = __real___tsan_atomic##N##_exchange(a, v, mo); gcs::afterAtomic(); return r; } \
    T __real___tsan_atomic##N##_fetch_add(volatile T*, T, int);                                                                  \
    T __wrap___tsan_atomic##N##_fetch_add(volatile T* a, T v, int mo) { T r = __real___tsan_atomic##N##_fetch_add(a, v, mo); gcs::afterAtomic(); return r; } \
    T __real___tsan_atomic##N##_fetch_sub(volatile T*, T, int);                                                                  \
    T __wrap___tsan_atomic##N##_fetch_sub(volatile T* a, T v, int mo) { T r = __real___tsan_atomic##N##_fetch_sub(a, v, mo); gcs::afterAtomic(); return r; } \
    int __real___tsan_atomic##N##_compare_exchange_strong(volatile T*, T*, T, int, int);                                         \
    int __wrap___tsan_atomic##N##_compare_exchange_strong(volatile T* a, T* c, T v, int mo, int fmo) { int r = __real___tsan_atomic##N##_compare_exchange_strong(a, c, v, mo, fmo); gcs::afterAtomic(); return r; } \
    int __real___tsan_atomic##N##_compare_exchange_weak(volatile T*, T*, T, int, int);                                           \
    int __wrap___tsan_atomic##N##_compare_exchange_weak(volatile T* a, T* c, T v, int mo, int fmo) { int r = __real___tsan_atomic##N##_compare_exchange_weak(a, c, v, mo, fmo); gcs::afterAtomic(); return r; } \
    T __real___tsan_atomic##N##_compare_exchange_val(volatile T*, T, T, int, int);                                               \
    T __wrap___tsan_atomic##N##_compare_exchange_val(volatile T* a, T c, T v, int mo, int fmo) { T r = __real___tsan_atomic##N##_compare_exchange_val(a, c, v, mo, fmo); gcs::afterAtomic(); return r; }
GCS_WRAP_ATOMICS(8, char)
GCS_WRAP_ATOMICS(32, int)
GCS_WRAP_ATOMICS(64, long)
#undef GCS_WRAP_ATOMICS

// The interpreter must not block on a mutex held by a timer that is parked mid-slice.
int __real_pthread_mutex_lock(pthread_mutex_t*);
int __wrap_pthread_mutex_lock(pthread_mutex_t* m) {
    using namespace gcs;
    if (t_inSeam || !g_active.load(RLX) || !g_started.load(RLX) || !pthread_equal(pthread_self(), g_interp)) return __real_pthread_mutex_lock(m);
    SeamGuard g;
    if (g_parked.load(RLX) != 2 || g_exited.load(RLX)) return __real_pthread_mutex_lock(m);
    for (;;) {
        int rc = pthread_mutex_trylock(m);
        if (rc != EBUSY) return rc;
        if (g_parked.load(RLX) != 2) return __real_pthread_mutex_lock(m);   // not held by a parked timer: ordinary blocking lock
        g_stats.contendedLocks++;
        g_stats.midSliceResumes++;
        releaseTimer(3);
    }
}
}
#endif  // GCS_ATOMIC_SEAM
