#!/bin/bash
# Builds the repository sources (directly, not through its CMake) with -DBLOCH_VERIF and links
# the simulation engines. Objects are cached under build/<flavour>-<key> where <key> is a hash of
# every file under $REPO/src/bloch, the flags and the harness sources: a changed tree is a
# different key, so a check always runs the current working tree.
#
#   build.sh all                      build every engine/flavour used by the registered checks
#   build.sh <engine> <flavour>       ensure one binary is current, print its path
set -euo pipefail
cd "$(dirname "$0")"
VERIF="$(pwd)"
REPO="${VERIF_REPO:-/repo}"
SRC="$REPO/src"

REPO_TUS=(
  bloch/compiler/lexer/lexer.cpp
  bloch/compiler/parser/parser.cpp
  bloch/compiler/semantics/built_ins.cpp
  bloch/compiler/semantics/semantic_analyser.cpp
  bloch/compiler/semantics/type_system.cpp
  bloch/compiler/import/module_loader.cpp
  bloch/runtime/qasm_simulator.cpp
  bloch/runtime/runtime_evaluator.cpp
  bloch/cli/cli.cpp
)

UBSAN_CHECKS="integer-divide-by-zero,null,bounds,vptr,return,unreachable,alignment,bool,enum,shift"

flags_for() {
  case "$1" in
    plain) echo "g++ -O2 -g1 -DNDEBUG" ;;   # NDEBUG as in the repository's default Release build
    asan)  echo "clang++ -O1 -g -fno-omit-frame-pointer -fsanitize=address -fsanitize=$UBSAN_CHECKS -fno-sanitize-recover=all" ;;
    tsan)  echo "clang++ -O1 -g -fno-omit-frame-pointer -fsanitize=thread" ;;
    real)  echo "g++ -O2 -g1 -DNDEBUG" ;;    # the simulator as shipped: WITHOUT -DBLOCH_VERIF, i.e. with its own std::mt19937 (engine rngreal)
    *) echo "unknown flavour $1" >&2; exit 2 ;;
  esac
}

GC_WRAPS="-Wl,--wrap=pthread_cond_clockwait -Wl,--wrap=_ZNSt6chrono3_V212steady_clock3nowEv -Wl,--wrap=_ZNSt6thread4joinEv -Wl,--wrap=_ZNSt18condition_variable10notify_allEv -Wl,--wrap=_ZNSt6thread15_M_start_threadESt10unique_ptrINS_6_StateESt14default_deleteIS1_EEPFvvE -Wl,--wrap=_ZNSt18condition_variable4waitERSt11unique_lockISt5mutexE -Wl,--wrap=_ZNSt6thread6detachEv"

# gcsim under ThreadSanitizer: the timer thread is pre-empted at its atomic operations (sim/seams/gcsched.hpp, GCS_ATOMIC_SEAM)
SEAM_WRAPS="-Wl,--wrap=__tsan_atomic8_load -Wl,--wrap=__tsan_atomic8_store -Wl,--wrap=__tsan_atomic8_exchange -Wl,--wrap=__tsan_atomic8_fetch_add -Wl,--wrap=__tsan_atomic8_fetch_sub -Wl,--wrap=__tsan_atomic8_compare_exchange_strong -Wl,--wrap=__tsan_atomic8_compare_exchange_weak -Wl,--wrap=__tsan_atomic8_compare_exchange_val -Wl,--wrap=__tsan_atomic32_load -Wl,--wrap=__tsan_atomic32_store -Wl,--wrap=__tsan_atomic32_exchange -Wl,--wrap=__tsan_atomic32_fetch_add -Wl,--wrap=__tsan_atomic32_fetch_sub -Wl,--wrap=__tsan_atomic32_compare_exchange_strong -Wl,--wrap=__tsan_atomic32_compare_exchange_weak -Wl,--wrap=__tsan_atomic32_compare_exchange_val -Wl,--wrap=__tsan_atomic64_load -Wl,--wrap=__tsan_atomic64_store -Wl,--wrap=__tsan_atomic64_exchange -Wl,--wrap=__tsan_atomic64_fetch_add -Wl,--wrap=__tsan_atomic64_fetch_sub -Wl,--wrap=__tsan_atomic64_compare_exchange_strong -Wl,--wrap=__tsan_atomic64_compare_exchange_weak -Wl,--wrap=__tsan_atomic64_compare_exchange_val -Wl,--wrap=pthread_mutex_lock"

# engine -> extra link flags / libs
link_extra() {
  case "$1" in
    gcsim)  echo "$GC_WRAPS -lpthread" ;;
    qhist)  echo "$GC_WRAPS -lpthread" ;;
    clirun) echo "$GC_WRAPS -lpthread" ;;
    fssim)  echo "-lpthread" ;;
    updsim) echo "-Wl,--wrap=_ZNSt6chrono3_V212system_clock3nowEv -Wl,--wrap=system -lcrypto -lpthread" ;;
    rngreal) echo "-Wl,--wrap=_ZNSt13random_device9_M_getvalEv -lpthread" ;;
  esac
}
# engine -> needs repo objects?
needs_repo_objs() { [ "$1" != "updsim" ]; }

src_key() {
  local flavour="$1"
  {
    echo "flavour=$flavour flags=$(flags_for "$flavour")"
    (cd "$SRC" && find bloch -type f \( -name '*.cpp' -o -name '*.hpp' \) | LC_ALL=C sort | xargs sha256sum)
  } | sha256sum | cut -c1-16
}
harness_key() {
  {
    (cd "$VERIF" && find sim shim -type f | LC_ALL=C sort | xargs sha256sum)
    sha256sum "$VERIF/build.sh"
  } | sha256sum | cut -c1-12
}

# A locale whose LC_NUMERIC uses ',' as the decimal point (environment fault for the CLI clauses of qhist).
build_locale() {
  local out="$VERIF/build/locale/xx_XX"
  [ -f "$out/LC_NUMERIC" ] && return 0
  mkdir -p "$VERIF/build/locale"
  command -v localedef >/dev/null 2>&1 || return 0
  localedef -c -f "$VERIF/sim/data/locale/ascii.cm" -i "$VERIF/sim/data/locale/comma.src" "$out" >/dev/null 2>&1 || true
}

build_one() {
  local engine="$1" flavour="$2"
  build_locale
  local key hkey dir cc
  key="$(src_key "$flavour")"
  hkey="$(harness_key)"
  dir="$VERIF/build/$flavour-$key"
  mkdir -p "$dir"
  local bin="$dir/$engine-$hkey"
  cc="$(flags_for "$flavour")"
  local common="-std=c++20 -DBLOCH_VERIF -I$SRC -I$VERIF -fno-access-control -Wno-deprecated-declarations"
  if [ "$flavour" = "real" ]; then common="-std=c++20 -I$SRC -I$VERIF -fno-access-control -Wno-deprecated-declarations"; fi
  if [ "$engine" = "rngreal" ] && [ "$flavour" != "real" ]; then echo "rngreal is built in flavour 'real' only" >&2; exit 2; fi
  if [ "$flavour" = "real" ] && [ "$engine" != "rngreal" ]; then echo "flavour 'real' is for rngreal only" >&2; exit 2; fi
  local objs=()
  if needs_repo_objs "$engine"; then
    for tu in "${REPO_TUS[@]}"; do
      if [ "$tu" = "bloch/cli/cli.cpp" ] && [ "$engine" != "clirun" ] && [ "$engine" != "qhist" ]; then continue; fi
      if [ "$engine" = "rngreal" ] && [ "$tu" != "bloch/runtime/qasm_simulator.cpp" ]; then continue; fi
      objs+=("$dir/$(echo "$tu" | tr '/' '_' | sed 's/\.cpp$/.o/')")
    done
    (
      flock 9
      pids=()
      for tu in "${REPO_TUS[@]}"; do
        o="$dir/$(echo "$tu" | tr '/' '_' | sed 's/\.cpp$/.o/')"
        if [ "$engine" = "rngreal" ] && [ "$tu" != "bloch/runtime/qasm_simulator.cpp" ]; then continue; fi
        if [ ! -f "$o" ]; then
          ( $cc $common -DBLOCH_VERSION='"1.2.3"' -DBLOCH_COMMIT_HASH='"verif"' -c "$SRC/$tu" -o "$o.tmp" && mv "$o.tmp" "$o" ) &
          pids+=($!)
        fi
      done
      rc=0
      for p in "${pids[@]:-}"; do [ -n "$p" ] && { wait "$p" || rc=1; }; done
      exit $rc
    ) 9>"$dir/.lock.objs"
  fi
  (
    flock 9
    if [ ! -x "$bin" ]; then
      extra_inc=""
      if [ "$engine" = "updsim" ]; then extra_inc="-I$VERIF/shim -DCPPHTTPLIB_OPENSSL_SUPPORT"; fi
      seam=""
      if [ "$engine" = "gcsim" ] && [ "$flavour" = "tsan" ]; then seam="-DGCS_ATOMIC_SEAM $SEAM_WRAPS"; fi
      $cc $extra_inc $seam $common -DVERIF_ROOT="\"$VERIF\"" -DVERIF_FLAVOUR="\"$flavour\"" -DVERIF_REPO_SRC="\"$SRC\"" "$VERIF/sim/engines/$engine.cpp" ${objs[@]+"${objs[@]}"} $(link_extra "$engine") -o "$bin.tmp"
      mv "$bin.tmp" "$bin"
      # drop older binaries of this engine in this dir
      ls -1t "$dir/$engine"-* 2>/dev/null | grep -v '\.tmp$' | tail -n +3 | xargs -r rm -f
    fi
  ) 9>"$dir/.lock.$engine"
  # prune old cache entries of this flavour (keep newest two)
  ls -1dt "$VERIF"/build/"$flavour"-* 2>/dev/null | tail -n +5 | xargs -r rm -rf
  echo "$bin"
}

ALL_TARGETS=(
  "gcsim plain" "gcsim asan" "gcsim tsan"
  "qhist plain" "qhist tsan"
  "clirun plain"
  "fssim plain"
  "updsim plain"
  "rngreal real"
)

if [ "${1:-}" = "all" ]; then
  pids=()
  # repo objects per flavour are shared between engines: build one engine per flavour first
  for fl in plain asan tsan; do ( build_one gcsim "$fl" >/dev/null ) & pids+=($!); done
  ( build_one updsim plain >/dev/null ) & pids+=($!)
  rc=0
  for p in "${pids[@]}"; do wait "$p" || rc=1; done
  [ $rc -eq 0 ] || { echo "build failed" >&2; exit 1; }
  pids=()
  for t in "${ALL_TARGETS[@]}"; do
    set -- $t
    [ -f "$VERIF/sim/engines/$1.cpp" ] || continue
    ( build_one "$1" "$2" >/dev/null ) & pids+=($!)
  done
  for p in "${pids[@]}"; do wait "$p" || rc=1; done
  [ $rc -eq 0 ] || { echo "build failed" >&2; exit 1; }
  echo "build ok"
  exit 0
fi

build_one "$1" "${2:-plain}"
