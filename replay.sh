#!/bin/bash
# usage: replay.sh <replay file>
# Replays a violation file in a fresh process with the engine and build flavour it was produced by.
# Prints "REPLAY ok" (exit 0) or "REPLAY violation class=..." (exit 1); crash replays end the way the
# original run did (sanitizer exit code / signal).
set -u
cd "$(dirname "$0")"
F="$1"
read -r PROP FLAVOUR PLANENGINE MODE < <(python3 - "$F" <<'PY'
import json, sys
j = json.load(open(sys.argv[1]))
plan = j.get("plan", {}) if isinstance(j.get("plan"), dict) else {}
print(j.get("engine_property", ""), j.get("flavour", "plain") or "plain", plan.get("engine", "-") or "-", j.get("mode", "") or "-")
PY
)
case "$PROP" in
  C11|C12) ENGINE=gcsim ;;
  C02|C03|C04|C05|C06) ENGINE=qhist ;;
  C17|C18) ENGINE=clirun ;;
  C19) ENGINE=fssim ;;
  C20) ENGINE=updsim ;;
  *) echo "cannot tell the engine from $F" >&2; exit 2 ;;
esac
if [ "$PLANENGINE" = rngreal ]; then ENGINE=rngreal; FLAVOUR=real; fi
case "$ENGINE/$FLAVOUR" in
  gcsim/*|qhist/tsan|rngreal/real) ;;
  *) FLAVOUR=plain ;;
esac
BIN="$(./build.sh "$ENGINE" "$FLAVOUR")" || exit 2
if [ "$MODE" != "-" ] && [ -n "$MODE" ]; then exec "$BIN" --property "$PROP" --flavour "$FLAVOUR" --mode "$MODE" --replay "$F"; fi
exec "$BIN" --property "$PROP" --flavour "$FLAVOUR" --replay "$F"
