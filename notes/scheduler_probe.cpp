// THROW-AWAY PROBE (round 0), kept only as a note: it is the program behind the *measured*
// claims of DESIGN.md section 6.7. It is not part of the framework and no registered command uses it.
// Built against a scratch copy of /repo/src with hook H2 patched into RuntimeEvaluator::exec and linked with
//   -Wl,--wrap=pthread_cond_clockwait -Wl,--wrap=_ZNSt6chrono3_V212steady_clock3nowEv
//   -Wl,--wrap=_ZNSt6thread4joinEv -Wl,--wrap=_ZNSt18condition_variable10notify_allEv  (-fno-access-control)

#include "bloch/compiler/lexer/lexer.hpp"
#include "bloch/compiler/parser/parser.hpp"
#include "bloch/compiler/semantics/semantic_analyser.hpp"
#include "bloch/runtime/runtime_evaluator.hpp"
#include "bloch/support/verif_hooks.hpp"
#include <atomic>
#include <cerrno>
#include <cstdio>
#include <cstdlib>
#include <pthread.h>
#include <sched.h>
#include <sstream>
#include <iostream>
using namespace bloch;
// ---------------- simulator state (atomics only; relaxed handoff) -------------
static std::atomic<void*> g_cond{nullptr};          // &ev.m_gcCv of the registered evaluator
static std::atomic<int> g_parked{0};                // timer thread is parked in clockwait
static std::atomic<int> g_wake{0};                  // 0 none, 1 timeout, 2 notified
static std::atomic<long> g_simNowNs{1000000000L};
static std::atomic<long> g_deadlineNs{0};
static std::atomic<int> g_yields{0}, g_ticks{0}, g_waits{0};
static int g_tickAt = -1;
static void spin() { sched_yield(); }
extern "C" {
int __real_pthread_cond_clockwait(pthread_cond_t*, pthread_mutex_t*, clockid_t, const struct timespec*);
int __wrap_pthread_cond_clockwait(pthread_cond_t* c, pthread_mutex_t* m, clockid_t clk, const struct timespec* ts) {
  if ((void*)c != g_cond.load(std::memory_order_relaxed)) return __real_pthread_cond_clockwait(c, m, clk, ts);
  g_waits.fetch_add(1, std::memory_order_relaxed);
  g_deadlineNs.store(ts->tv_sec * 1000000000L + ts->tv_nsec, std::memory_order_relaxed);
  pthread_mutex_unlock(m);
  g_wake.store(0, std::memory_order_relaxed);
  g_parked.store(1, std::memory_order_relaxed);
  int w;
  while ((w = g_wake.load(std::memory_order_relaxed)) == 0) spin();
  g_parked.store(0, std::memory_order_relaxed);
  pthread_mutex_lock(m);
  return w == 1 ? ETIMEDOUT : 0;
}
long __wrap__ZNSt6chrono3_V212steady_clock3nowEv() { return g_simNowNs.load(std::memory_order_relaxed); }
void __real__ZNSt6thread4joinEv(std::thread*);
void __wrap__ZNSt6thread4joinEv(std::thread* t) {
  // stop requested by the code under test; deliver the (possibly lost) notification as a timeout
  while (!g_parked.load(std::memory_order_relaxed)) spin();
  g_simNowNs.store(g_deadlineNs.load(std::memory_order_relaxed) + 1, std::memory_order_relaxed);
  g_wake.store(1, std::memory_order_relaxed);
  __real__ZNSt6thread4joinEv(t);
}
void __real__ZNSt18condition_variable10notify_allEv(void*);
void __wrap__ZNSt18condition_variable10notify_allEv(void* c) { if (c != g_cond.load(std::memory_order_relaxed)) __real__ZNSt18condition_variable10notify_allEv(c); /* else: lost */ }
}
static void onYield(void* evp, void*) {
  auto* ev = static_cast<runtime::RuntimeEvaluator*>(evp);
  int y = g_yields.fetch_add(1, std::memory_order_relaxed);
  if (!ev->m_gcThreadStarted) return;
  while (!g_parked.load(std::memory_order_relaxed)) spin();     // timer must be parked before we go on
  if (y == g_tickAt) {
    g_simNowNs.store(g_deadlineNs.load(std::memory_order_relaxed) + 1, std::memory_order_relaxed);
    int before = g_waits.load(std::memory_order_relaxed);
    g_wake.store(1, std::memory_order_relaxed);
    while (g_waits.load(std::memory_order_relaxed) == before || !g_parked.load(std::memory_order_relaxed)) spin();
    g_ticks.fetch_add(1, std::memory_order_relaxed);
  }
}
int main(int argc, char** argv) {
  g_tickAt = argc > 1 ? atoi(argv[1]) : -1;
  const char* src =
    "class A { public int v; public constructor(int v) -> A { this.v = v; return this; } "
    "  public destructor() -> void { echo(\"dtor A \" + this.v); } }"
    "function churn() -> int { int z = 1; int y = 2; int w = 3; return z + y; }"
    "function use(A a, int k) -> void { echo(\"use \" + a.v + \" \" + k); }"
    "function main() -> void { use(new A(7), churn()); echo(\"done\"); }";
  compiler::Lexer lx(src); auto toks = lx.tokenize(); compiler::Parser p(std::move(toks)); auto prog = p.parse();
  compiler::SemanticAnalyser an; an.analyse(*prog);
  std::stringstream out; auto* old = std::cout.rdbuf(out.rdbuf());
  {
    runtime::RuntimeEvaluator ev;
    g_cond.store(&ev.m_gcCv, std::memory_order_relaxed);
    verif::g_yield = onYield;
    ev.execute(*prog);
  }
  std::cout.rdbuf(old);
  std::string o = out.str(); for (auto& ch : o) if (ch == '\n') ch = '|';
  printf("tickAt=%d yields=%d ticks=%d waits=%d out=%s\n", g_tickAt, g_yields.load(), g_ticks.load(), g_waits.load(), o.c_str());
}
