#!/bin/bash
# Builds /repo with the repository's own CMake (guard BLOCH_VERIF OFF) in a scratch
# directory outside /repo and /verif, runs the test suite, removes the directory.
set -euo pipefail
REPO="${VERIF_REPO:-/repo}"
D="$(mktemp -d "${TMPDIR:-/tmp}/bloch-baseline.XXXXXX")"
trap 'rm -rf "$D"' EXIT
cmake -G Ninja -S "$REPO" -B "$D" -DCMAKE_BUILD_TYPE=Release >"$D/cmake.log" 2>&1 || { cat "$D/cmake.log"; exit 2; }
cmake --build "$D" -j16 >"$D/build.log" 2>&1 || { tail -50 "$D/build.log"; exit 2; }
"$D/bin/bloch_tests"
