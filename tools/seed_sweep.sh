#!/bin/bash
# usage: tools/seed_sweep.sh <property> [seed dirs...]
# Runs the property's quick check against each seeded change, in the scratch worktree /tmp/wt/<property>
# (WTROOT overrides /tmp/wt; checked out at /repo's HEAD, patch applied there, VERIF_REPO pointing at it). /repo is not touched.
PROP="$1"; shift
WT=${WTROOT:-/tmp/wt}/$PROP
HEAD=$(git -C /repo rev-parse HEAD)
git -C "$WT" checkout -q -- . 2>/dev/null
git -C "$WT" checkout -q --detach "$HEAD" || exit 2
DIRS=("$@")
[ ${#DIRS[@]} -eq 0 ] && DIRS=($(ls -d /verif/seeded/${PROP}_[0-9]* 2>/dev/null))
for d in "${DIRS[@]}"; do
  name=$(basename "$d")
  git -C "$WT" checkout -q -- .
  if ! git -C "$WT" apply "$d/patch.diff" 2>/dev/null; then git -C "$WT" checkout -q -- .; if ! git -C "$WT" apply -3 "$d/patch.diff" >/dev/null 2>&1 || git -C "$WT" diff --name-only --diff-filter=U | grep -q .; then echo "$name: PATCH DOES NOT APPLY"; git -C "$WT" reset -q --hard; continue; fi; git -C "$WT" reset -q; fi
  out=$(cd /verif && VERIF_REPO="$WT" VERIF_EVIDENCE_DIR=${SWEEP_SCRATCH:-/tmp/bw}/ev VERIF_REPLAY_DIR=${SWEEP_SCRATCH:-/tmp/bw}/rp ./run_check.sh "$PROP" quick 2>&1)
  rc=$?
  v=$(echo "$out" | grep -c '^VIOLATION')
  cls=$(echo "$out" | grep -A1 '^VIOLATION' | grep 'class=' | head -3 | sed 's/^ *//' | tr '\n' ';')
  echo "$name: exit=$rc violations=$v $cls"
  if [ -f "/verif/seeded/$name/meta.json" ]; then
    python3 - "$name" "$PROP" "$rc" "$cls" <<'PY'
import json, sys
name, prop, rc, cls = sys.argv[1:5]
p = f"/verif/seeded/{name}/meta.json"
m = json.load(open(p))
classes = sorted(set(c.split("class=")[1].split(" ")[0] for c in cls.split(";") if "class=" in c))
m["caught_by"] = {"check": f"./run_check.sh {prop} quick", "exit": int(rc), "violation_classes": classes} if rc == "1" else {"check": f"./run_check.sh {prop} quick", "exit": int(rc), "violation_classes": [], "note": "NOT caught by this property's quick check"}
json.dump(m, open(p, "w"), indent=1)
PY
  fi
  git -C "$WT" checkout -q -- .
done
