#!/bin/bash
# usage: tools/confirm_seeds.sh <property>
# Confirms every seeded change of a property in its scratch worktree: clean tree builds, 288 tests pass and
# the demonstration passes; with the change applied the tree builds, 288 tests pass and the demonstration fails.
PROP="$1"
WT=${WTROOT:-/tmp/wt}/$PROP
HEAD=$(git -C /repo rev-parse HEAD)
cd "$WT" || exit 2
git checkout -q -- . ; git checkout -q --detach "$HEAD" || exit 2
build() { cmake -G Ninja -S . -B _b -DCMAKE_BUILD_TYPE=Release >/dev/null 2>&1; cmake --build _b -j5 >/dev/null 2>&1; }
tests() { _b/bin/bloch_tests 2>&1 | tail -1; }
demo() {  # $1 = seed dir ; prints exit code
  local d="$1" s=""
  for c in run.sh demo.sh run_demo.sh check_all.sh; do [ -f "$d/$c" ] && s="$c" && break; done
  if [ -z "$s" ] && [ -f "$d/check.sh" ]; then ( cd "$d" && timeout 600 bash ./check.sh "$WT/_b/bin/bloch" >${WTROOT:-/tmp/wt}/confirm_${PROP}_$(basename $d).log 2>&1 ); echo $?; return; fi
  if [ -z "$s" ]; then echo "nodemo"; return; fi
  ( cd "$d" && timeout 1500 bash "./$s" "$WT/_b/bin/bloch" >${WTROOT:-/tmp/wt}/confirm_${PROP}_$(basename $d).log 2>&1 ); echo $?
}
build
echo "$PROP clean: tests='$(tests)'"
for d in _seed/${PROP}_*; do
  [ -d "$d" ] || continue
  name=$(basename "$d")
  clean_rc=$(demo "$d")
  git checkout -q -- .
  if ! git apply "$d/patch.diff" 2>/dev/null; then
    if ! git apply -3 "$d/patch.diff" >/dev/null 2>&1 || git diff --name-only --diff-filter=U | grep -q .; then echo "$name: clean_demo=$clean_rc PATCH DOES NOT APPLY at HEAD"; git reset -q --hard; continue; fi
    git reset -q
  fi
  build
  t="$(tests)"
  mut_rc=$(demo "$d")
  echo "$name: clean_demo=$clean_rc mutant_tests='$t' mutant_demo=$mut_rc"
  git checkout -q -- .
  build
done
