#!/usr/bin/env python3
"""Merges the per-slice evidence fragments written by the engines into evidence/<Cxx>.json.
Counts are sums of what the slices measured; nothing is invented here."""
import json, sys, glob, os

prop, tier, seed, fragdir, out = sys.argv[1:6]
frags = []
for p in sorted(glob.glob(os.path.join(fragdir, "*.json"))):
    with open(p) as f:
        frags.append(json.load(f))
if not frags:
    print("merge_evidence: no fragments", file=sys.stderr)
    sys.exit(2)
if len(frags) == 1:
    ev = frags[0]
else:
    ev = {"property_id": prop, "tier": tier, "seed": int(seed), "level": "exploration"}
    cov = {"evaluations": 0, "distinct_nontrivial": 0, "rule": frags[0]["coverage"]["rule"] + " (evaluations are summed over the build-flavour slices; the same run index under another flavour is the same plan, so distinct_nontrivial is the maximum over the slices, not their sum)", "samples": []}
    counters = {}
    faults = {}
    slices = []
    wall = 0.0
    viol = 0
    sim_time = 0.0
    for fr in frags:
        c = fr["coverage"]
        cov["evaluations"] += c["evaluations"]
        # the same run index under another flavour is the same plan: count distinct as the max, not the sum
        cov["distinct_nontrivial"] = max(cov["distinct_nontrivial"], c["distinct_nontrivial"])
        if len(cov["samples"]) < 4:
            cov["samples"].extend(c.get("samples", [])[:2])
        for k, v in c.get("counters", {}).items():
            counters[k] = counters.get(k, 0) + v
        for k, v in c.get("faults_fired", {}).items():
            faults[k] = faults.get(k, 0) + v
        sim_time += c.get("simulated_time_s", 0)
        slices.append({"flavour": c.get("flavour", "plain"), "evaluations": c["evaluations"], "distinct_nontrivial": c["distinct_nontrivial"],
                       "runs_per_hour": c.get("runs_per_hour"), "wall_s": fr["wall_s"], "violations": fr.get("violations", 0),
                       "wall_capped": c.get("wall_capped", False), "crashed_workers": c.get("crashed_workers", 0)})
        wall += fr["wall_s"]
        viol += fr.get("violations", 0)
        for key in ("components", "violation_details"):
            if key in c and key not in cov:
                cov[key] = c[key]
    cov["counters"] = counters
    cov["faults_fired"] = faults
    cov["slices"] = slices
    cov["simulated_time_s"] = sim_time
    cov["runs_per_hour"] = cov["evaluations"] / wall * 3600 if wall > 0 else 0
    ev["coverage"] = cov
    ev["assumptions"] = frags[0].get("assumptions", [])
    ev["wall_s"] = wall
    ev["violations"] = viol
tmp = out + ".tmp"
with open(tmp, "w") as f:
    json.dump(ev, f, indent=1)
    f.write("\n")
os.replace(tmp, out)
