#!/usr/bin/env python3
"""Prints the markdown table of seeded changes (DESIGN.md section 12) from seeded/*/meta.json."""
import json, glob, os
rows = []
for p in sorted(glob.glob("/verif/seeded/*/meta.json"), key=lambda x: (os.path.basename(os.path.dirname(x)).split("_")[0], int(os.path.basename(os.path.dirname(x)).split("_")[1]))):
    m = json.load(open(p))
    cb = m.get("caught_by")
    if isinstance(cb, dict):
        res = ("caught: " + ", ".join(cb["violation_classes"][:3])) if cb.get("exit") == 1 else ("**missed** (exit %s)" % cb.get("exit"))
    else:
        res = "not swept yet"
    extra = m.get("also_caught_by", "")
    if extra:
        res += "; " + extra
    rows.append(f"| {m['id']} | {m['change']} | {m['needs_to_manifest']} | {res} |")
print("| id | change | needs | result of `./run_check.sh <property> quick` on the changed tree |")
print("|----|--------|-------|------|")
print("\n".join(rows))
