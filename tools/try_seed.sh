#!/bin/bash
# usage: tools/try_seed.sh <patch.diff> <command...>
# Applies a seeded change to /repo, runs the command, and always reverts /repo afterwards.
set -u
PATCH="$1"; shift
cd /repo || exit 2
if ! git diff --quiet; then echo "/repo has uncommitted changes; refusing" >&2; exit 2; fi
git apply "$PATCH" || { echo "patch does not apply" >&2; exit 2; }
trap 'git -C /repo checkout -- . ' EXIT
cd /verif
"$@"
rc=$?
echo "[try_seed] exit=$rc"
exit $rc
