#!/bin/bash
# usage: run_check.sh <Cxx> quick|thorough
# Builds what the check needs from /repo's current working tree (hooks on), runs the engine slices,
# merges their evidence fragments into evidence/<Cxx>.json. Exit 0 / 1 (VIOLATION line) / 2 (harness).
set -u
cd "$(dirname "$0")"
PROP="$1"; TIER="${2:-${VERIF_TIER:-quick}}"
export VERIF_TIER="$TIER"
SEED="${VERIF_SEED:-1}"
EVID="${VERIF_EVIDENCE_DIR:-evidence}"
RPL="${VERIF_REPLAY_DIR:-/verif/replays}"
mkdir -p "$EVID" "$RPL"
FR="$(mktemp -d "${TMPDIR:-/tmp}/blochsim.frag.XXXXXX")"
trap 'rm -rf "$FR"' EXIT

slices=()   # "engine flavour extra-args"
case "$PROP" in
  C11) slices=("gcsim plain" "gcsim asan" "gcsim tsan") ;;
  C12) slices=("gcsim plain" "gcsim asan" "gcsim tsan") ;;
  C02) slices=("qhist plain" "qhist tsan --mode bigreg" "rngreal real") ;;
  C04) slices=("qhist plain" "qhist tsan --mode bigreg") ;;
  C03|C05|C06) slices=("qhist plain") ;;
  C17|C18) slices=("clirun plain") ;;
  C19) slices=("fssim plain") ;;
  C20) slices=("updsim plain") ;;
  *) echo "unknown property $PROP" >&2; exit 2 ;;
esac

rc=0
i=0
for sl in "${slices[@]}"; do
  set -- $sl
  engine="$1"; flavour="$2"; shift 2; extra="$*"
  bin="$(./build.sh "$engine" "$flavour")" || { echo "build of $engine/$flavour failed" >&2; exit 2; }
  "$bin" --property "$PROP" --tier "$TIER" --seed "$SEED" --flavour "$flavour" --fragment "$FR/$i.json" --replay-dir "$RPL" $extra
  r=$?
  if [ $r -eq 1 ]; then rc=1; elif [ $r -ne 0 ] && [ $rc -ne 1 ]; then rc=2; fi
  i=$((i+1))
done
python3 tools/merge_evidence.py "$PROP" "$TIER" "$SEED" "$FR" "$EVID/$PROP.json" || { [ $rc -eq 0 ] && rc=2; }
exit $rc
